#!/usr/bin/env python3
"""mkseedprompts.py <round-letter>: scratch copies /tmp/mut-<X>NN of /repo and self-contained prompts
/tmp/agent-prompt-<X>NN.txt for the sub-agents that write seeded changes (they get property texts, an area, the
summaries of the earlier changes and their own copy -- nothing from /verif).  Themes per round below."""
import json, os, subprocess, sys
props = {}
for l in open('/verif/properties.jsonl'):
    p = json.loads(l)
    props[p['id']] = "%s — %s\nStatement: %s\nQuantified over: %s" % (p['id'], p['title'], p['statement'], p['quantifier']['text'])
known = []
for d in sorted(os.listdir('/verif/seeded')):
    m = json.load(open('/verif/seeded/%s/meta.json' % d))
    known.append("- " + (m.get('summary') or '')[:200].replace('\n', ' '))
ROUNDS = {
 "T": {
  "T01": ("md5crypt and sunmd5 hashing (lib/crypt-md5.c, lib/crypt-sunmd5.c, lib/alg-md5.c): the alternate-sum and bit loops, the 1000-round schedule (i%2, i%3, i%7), the sunmd5 coin toss / Hamlet text / round counter formatting, salt scanning ('$$' handling), output encoding", ["C01", "C02", "C03", "C06", "C16"]),
  "T02": ("bcrypt (lib/crypt-bcrypt.c): BF_decode/BF_encode, BF_set_key and the $2a$/$2x$/$2y$/$2b$ flag handling, cost parsing and limits, the self-test in BF_crypt/_crypt_blowfish_rn, BF_gensalt, the key-schedule loop counts, wiping", ["C01", "C02", "C03", "C05", "C09", "C11"]),
  "T03": ("scrypt and the SHA-256/PBKDF2/HMAC layer (lib/crypt-scrypt.c, lib/alg-sha256.c incl. HMAC_SHA256 and PBKDF2_SHA256, lib/alg-yescrypt-common.c encode64/decode64/yescrypt_r parameter decoding): N/r/p decoding for $7$, salt length limits, block counters, key > 64 bytes, partial last block", ["C02", "C03", "C05", "C16"]),
  "T04": ("the per-method setting generators: gensalt_sha1crypt_rn, gensalt_sunmd5_rn, gensalt_bsdicrypt_rn, gensalt_descrypt_rn/bigcrypt, gensalt_yescrypt_rn, gensalt_scrypt_rn, gensalt_gost_yescrypt_rn, gensalt_nt_rn, BF_gensalt: count-to-cost mapping, minimum random bytes, buffer-size tests, how many salt characters are emitted", ["C10", "C11", "C12", "C13"]),
  "T05": ("method selection and classification: get_hashfn, the hash table generated into crypt-hashes.h (prefix, plen, nrbytes, is_strong flags), crypt_checksalt, crypt_preferred_method, HASH_ALGORITHM_DEFAULT, crypt() and crypt_gensalt() static wrappers (lib/crypt-static.c, lib/crypt-gensalt-static.c)", ["C18", "C10", "C05", "C07"]),
  "T06": ("the DES core and the obsolete API (lib/alg-des.c: des_set_key, des_set_salt, des_crypt_block, the generated tables lib/alg-des-tables.c and their generator lib/gen-des-tables.c; lib/crypt-des-obsolete.c: setkey, encrypt, setkey_r, encrypt_r, pack/unpack of 64-byte bit arrays)", ["C17", "C08", "C20", "C02"]),
  "T07": ("build configuration: lib/hashes.conf, build-aux/scripts/expand-selected-hashes, gen-crypt-hashes-h, gen-crypt-symbol-vers-h, gen-libcrypt-map, the INCLUDE_* guards inside lib/*.c (what a build with only some hashes enabled contains and how methods forward to each other: bigcrypt->descrypt, gost_yescrypt->yescrypt, scrypt->yescrypt). The defect must show only in some --enable-hashes selection that is NOT the default 'all'", ["C19", "C18"]),
  "T08": ("binary interface: lib/crypt.h.in (struct crypt_data layout, CRYPT_* constants, macro definitions), lib/libcrypt.map.in and lib/libcrypt.minver (symbol versions and compat aliases fcrypt, xcrypt*, crypt_gensalt_r), lib/crypt-port.h symver macros, lib/xcrypt.h.in. The defect must keep the test suite passing but change what an already-compiled program observes", ["C20", "C07"]),
  "T09": ("thread-safety and erasure: anything that introduces hidden shared state (a static cache, a static buffer, lazy initialisation) into a function reachable from the re-entrant API, or that leaves key material (passphrase copies, HMAC pads, key schedules, random bytes) in the data object, heap, or stack after return; lib/alg-*.c contexts and their Final functions, lib/crypt-*.c cleanup paths", ["C08", "C09"]),
  "T10": ("crypt_ra and struct crypt_data handling in lib/crypt.c (allocation protocol, size bookkeeping, erasure before growth, the initialized field, get_internal alignment arithmetic, the order of make_failure_token / validation / wiping in crypt_rn, crypt_r, crypt_ra, crypt) -- prefer defects that need a particular prior state of (*data,*size) or of the object, or an allocator failure", ["C14", "C15", "C09", "C05", "C04"]),
 },
}
ROUNDS["U"] = {
  "U01": ("the digest cores lib/alg-md4.c, alg-md5.c, alg-sha1.c, alg-sha256.c, alg-sha512.c: Init/Update/Final buffering (partial blocks, exact multiples, lengths that make the padding spill into a second block, the bit-length encoding, updates of 0 bytes, very long single updates), endianness helpers, context wiping", ["C16", "C02", "C09"]),
  "U02": ("Streebog and the GOST layer: lib/alg-gost3411-2012-core.c (g, LPS, add512, stage2/stage3, Update/Final), lib/alg-gost3411-2012-hmac.c, and the outer layer of lib/crypt-gost-yescrypt.c (how the yescrypt output is HMAC'ed and re-encoded, setting rewriting $gy$ <-> $y$)", ["C16", "C02", "C01", "C06", "C09"]),
  "U03": ("the yescrypt core in lib/alg-yescrypt-opt.c: blockmix_salsa8, blockmix (pwxform rounds, Sbox handling, w counter), smix1/smix2 loop bounds and index computation (integerify, wrap, p2floor), Nloop rounding, the 'SCRAM finalization' / client-key step at the end of yescrypt_kdf_body, and salt/passwd prehash", ["C02", "C03", "C01"]),
  "U04": ("text encoders and decoders used to build and read hash strings: lib/util-base64.c, b64_from_24bit and to64 in crypt-md5/sha256/sha512/sunmd5/pbkdf1-sha1, encode64/decode64 and encode64_uint32/decode64_uint32 in lib/alg-yescrypt-common.c, BF_encode/BF_decode, des_gen_hash, the hex output of NT -- off-by-one, wrong alphabet index, missing terminator, group boundary at the last partial group", ["C06", "C01", "C02", "C10"]),
  "U05": ("output-buffer arithmetic of the setting generators and hashing functions: every place that compares a needed length with out_size/o_size/output_size (lib/util-gensalt-sha.c, gensalt_*_rn in lib/crypt-*.c, the 'out_size < ...' checks at the top of each crypt_*_rn, lib/util-xstrcpy.c) and how many random bytes are consumed", ["C13", "C12", "C04", "C06"]),
  "U06": ("secrets left behind: any path (especially error paths and early returns) on which a passphrase copy, a derived key, an HMAC pad, a cipher key schedule, a digest context or drawn random bytes is not erased before return; and writes that stay inside struct crypt_data but outside the documented fields (setting/input must stay untouched)", ["C09", "C04"]),
  "U07": ("hidden state: static or thread-unsafe data reachable from crypt_r/crypt_rn/crypt_ra/crypt_gensalt_rn/crypt_gensalt_ra/crypt_checksalt, lazy initialisation, caches, and anything that makes a later call depend on an earlier one (including through errno, through the data object, or through the static buffers of crypt()/crypt_gensalt())", ["C08", "C07", "C10"]),
  "U08": ("lib/hashes.conf (flags STRONG/DEFAULT/ALT..., prefixes, nrbytes column), build-aux/scripts/gen-crypt-hashes-h and gen-crypt-h, crypt_preferred_method, crypt_checksalt's strong/legacy/disabled/too-cheap classification, CRYPT_GENSALT_IMPLEMENTS_* macros -- defects visible only for some methods or some --enable-hashes selections", ["C18", "C19", "C10"]),
  "U09": ("memory management around the yescrypt region and crypt_ra: lib/alg-yescrypt-platform.c (alloc_region, free_region, init_region), the local/shared handling in yescrypt_kdf and yescrypt_init_local/free_local, crypt_yescrypt_rn / crypt_gost_yescrypt_rn / crypt_scrypt_rn cleanup order, crypt_ra growth -- prefer defects that need an allocation or mapping failure, a second call on the same object, or a particular size", ["C15", "C14", "C09", "C05"]),
  "U10": ("anything in lib/ of your choice that the earlier changes did not touch, preferring defects that arise from the interplay of two functions (a caller relying on a post-condition of a helper that you weaken slightly, or a helper relying on a pre-condition that you stop establishing)", ["C01", "C02", "C03", "C05", "C06", "C07", "C09", "C10", "C11", "C12", "C13"]),
}
ROUNDS["V"] = {
  "V01": ("sha1crypt and NT hashing: lib/crypt-pbkdf1-sha1.c (the pump string, HMAC iteration loop, output encoding order), lib/alg-hmac-sha1.c (key longer/shorter than the block, pad construction), lib/alg-sha1.c, lib/crypt-nthash.c (UCS-2 expansion of 8-bit bytes, hex output), lib/alg-md4.c", ["C01", "C02", "C03", "C06", "C16", "C09"]),
  "V02": ("the SHA-crypt inner machinery in lib/crypt-sha256.c and lib/crypt-sha512.c: the P and S byte sequences (how many times the phrase / salt are fed, the 16+first-byte rule for S), the per-round recombination (i%2, i%3, i%7), copying of 32/64-byte blocks for phrases longer than the digest, the final byte permutation", ["C01", "C02", "C03", "C06"]),
  "V03": ("traditional DES and bigcrypt in lib/crypt-des.c: how the key bytes are taken from the phrase (7-bit shift, zero padding), bigcrypt's segmentation into 8-byte pieces, the salt of each later segment taken from the previous segment's output, the maximum of 16 segments, the forwarding between bigcrypt and descrypt, des_gen_hash", ["C01", "C02", "C03", "C06", "C19"]),
  "V04": ("classic scrypt: lib/crypt-scrypt.c (encoding/decoding of N, r, p; verify_salt; how the hash is assembled), the non-pwxform path of lib/alg-yescrypt-opt.c (salsa20, blockmix_salsa8, smix1/smix2 when flags == 0, the p loop), and PBKDF2 at both ends", ["C02", "C03", "C05", "C06"]),
  "V05": ("the compatibility and glue layer: lib/crypt-port.h (symver/strong_alias macros, MIN/ARG_UNUSED helpers, static_assert checks), lib/crypt.c compat wrappers (xcrypt, xcrypt_r, xcrypt_gensalt, xcrypt_gensalt_r, crypt_gensalt_r, fcrypt), lib/crypt-static.c, lib/crypt-gensalt-static.c -- defects that only a caller of one particular entry point or symbol version sees", ["C20", "C07", "C10"]),
  "V06": ("errno discipline across lib/: every function reachable from the public API that sets, tests, saves or restores errno (strtoul-based parsers, the hashing methods' error exits, gensalt functions, yescrypt wrappers, get_random_bytes callers) -- defects where the reported errno or the success/failure decision depends on errno's value on entry, or where a failure leaves a wrong or stale errno", ["C05", "C07", "C13", "C10"]),
  "V07": ("integer widths and signedness anywhere in lib/: conversions between int, unsigned, size_t, uint32_t, uint64_t, unsigned long and unsigned char for lengths, counts, sizes, round numbers and character values (sign extension of char, truncation, wrap-around, comparison of signed with unsigned, shifts by the width) -- pick two different places", ["C02", "C03", "C04", "C05", "C11", "C13"]),
  "V08": ("sibling implementations that must stay in step: sha256crypt vs sha512crypt, descrypt vs bigcrypt vs bsdicrypt, yescrypt vs gost-yescrypt vs scrypt wrappers, the three gensalt entry points, crypt vs crypt_r vs crypt_rn vs crypt_ra, HMAC-SHA1 vs HMAC-SHA256 vs GOST HMAC -- introduce a defect in ONE sibling of a family so that it silently diverges from the others", ["C02", "C05", "C07", "C09", "C10", "C16"]),
  "V09": ("the setting parsers of the hashing methods (the part of each crypt_*_rn that reads the setting string): which characters end the salt, what happens with a trailing '$' or a full hash passed as setting, maximum and minimum salt lengths, optional fields, where the result copies the setting from -- defects visible only for unusual but valid spellings of a setting, or for a stored hash used as the setting", ["C01", "C02", "C03", "C05", "C06"]),
  "V10": ("anything in lib/ or build-aux/scripts of your choice that the earlier changes did not touch; prefer a defect whose effect appears only in the SECOND or later call of a sequence, or only for one position of a loop (first, last, or a wrap-around), or only in one build configuration", ["C01", "C02", "C03", "C05", "C07", "C09", "C14", "C15", "C17", "C19"]),
}
BASE = '''You are helping evaluate a verification framework by producing *seeded defects* ("mutations") for the C library libxcrypt (crypt/crypt_r/crypt_rn/crypt_ra/crypt_gensalt* password hashing API).

Your private scratch copy of the repository is the directory __DIR__ (a full git clone with the autotools build already configured and built in-tree: `make -j8` rebuilds, `make -j8 check` runs the 47-test suite in about 80 seconds; one test, getrandom-fallbacks, is normally SKIPped). Work ONLY inside __DIR__ (and files you create under __DIR__/OUT). Do NOT touch /repo or /verif, and do not read anything under /verif.

Area to work in for this task: __AREA__

The semantic properties the library is supposed to satisfy (break at least one of them with each change):

-----
__PROPS__
-----

Task: produce TWO different source changes (m1 and m2, different mechanisms, in different functions) such that for EACH change:
  1. the library still compiles and the complete existing test suite still passes (`make -j8 check`: 47 PASS, 0 FAIL) with only that one change applied — verify this yourself;
  2. the change BREAKS one of the properties above (a realistic bug a developer could plausibly introduce);
  3. the breakage needs something SPECIFIC to manifest — an unusual input (length, byte value, parameter encoding), a multi-step sequence of calls, a particular prior state of an object, a fault at a particular point, a specific interleaving, a particular build configuration, or two cooperating sites that each look fine alone. It must NOT be something ordinary use or the existing tests expose at once. Prefer subtle changes whose effect is confined to a very narrow corner (one length, one byte value, one residue class, one ordering).
  4. you provide a demonstration: a small C program (or shell script that compiles and runs one) that links against the freshly built library in __DIR__ (e.g. `gcc -I__DIR__ demo.c __DIR__/.libs/libcrypt.a -o demo`, or the .so in __DIR__/.libs with LD_LIBRARY_PATH; internal symbols are prefixed _crypt_ in the static archive) and exits 0 on the unmodified tree but non-zero (printing what went wrong) with the change applied. Verify both directions yourself.

The following changes have ALREADY been made by others; do not repeat them or trivial variants of them:
__KNOWN__

Keep each change small (a few lines). Do not modify tests. The tree contains macros VERIF_EV(...) guarded by XCRYPT_VERIF; leave them alone.

Deliverables under __DIR__/OUT/ (create it): m1.diff and m2.diff (each from `git diff` against pristine HEAD with only that change applied, so each applies alone with `git apply`); m1_demo.c / m2_demo.c (or .sh) with the exact build/run command in a comment at the top; notes.json: {"m1": {...}, "m2": {...}} each with "summary", "property" (the id it breaks, e.g. "C09"), "breaks" (which clause), "needs", "files", "suite_passed", "demo_cmd", "demo_fails_with_change", "demo_passes_without".
When finished leave the working tree of __DIR__ clean (git checkout -- . ; OUT stays). Reply with a short summary of the two changes.
'''
themes = ROUNDS[sys.argv[1]]
for k, (area, ps) in themes.items():
    d = '/tmp/mut-' + k
    subprocess.run(['rm', '-rf', d]); subprocess.run(['cp', '-a', '/repo', d])
    subprocess.run(['git', '-C', d, 'checkout', '-q', '--', '.'])
    open('/tmp/agent-prompt-%s.txt' % k, 'w').write(BASE.replace('__DIR__', d).replace('__AREA__', area)
        .replace('__PROPS__', "\n\n".join(props[p] for p in ps)).replace('__KNOWN__', "\n".join(known)))
print("ok", sorted(themes))
