"""Grammar-directed generators of settings and phrases (DESIGN.md C01 'Dom(m)').
All costs stay inside the compute budget of DESIGN.md section 4."""
import random

B64 = "./0123456789ABCDEFGHIJKLMNOPQRSTUVWXYZabcdefghijklmnopqrstuvwxyz"
BF64 = "./ABCDEFGHIJKLMNOPQRSTUVWXYZabcdefghijklmnopqrstuvwxyz0123456789"
METHODS = ["yescrypt", "gost_yescrypt", "scrypt", "bcrypt", "bcrypt_y", "bcrypt_a", "bcrypt_x",
           "sha512crypt", "sha256crypt", "sha1crypt", "sunmd5", "md5crypt", "nt",
           "bsdicrypt", "bigcrypt", "descrypt"]
PREFIX = {"yescrypt": "$y$", "gost_yescrypt": "$gy$", "scrypt": "$7$", "bcrypt": "$2b$", "bcrypt_y": "$2y$",
          "bcrypt_a": "$2a$", "bcrypt_x": "$2x$", "sha512crypt": "$6$", "sha256crypt": "$5$",
          "sha1crypt": "$sha1", "sunmd5": "$md5", "md5crypt": "$1$", "nt": "$3$", "bsdicrypt": "_",
          "bigcrypt": "", "descrypt": ""}
DIGLEN = {"yescrypt": 43, "gost_yescrypt": 43, "scrypt": 43, "bcrypt": 31, "bcrypt_y": 31, "bcrypt_a": 31,
          "bcrypt_x": 31, "sha512crypt": 86, "sha256crypt": 43, "sha1crypt": 28, "sunmd5": 22, "md5crypt": 22,
          "nt": 32, "bsdicrypt": 11, "bigcrypt": 11, "descrypt": 11}


def salt(rng, n, alpha=B64):
    return "".join(rng.choice(alpha) for _ in range(n))


def ysalt(rng, n):
    """a canonical crypt-base64 string of n characters (yescrypt salts: unused bits of a partial group are 0)"""
    s = salt(rng, n)
    if n % 4 == 2:
        s = s[:-1] + rng.choice(B64[:4])
    elif n % 4 == 3:
        s = s[:-1] + rng.choice(B64[:16])
    return s


def valid_settings(m, rng, full=False):
    """Accepted settings of method m in all the forms the property names (without a hash part)."""
    out = []
    if m in ("sha512crypt", "sha256crypt"):
        p = PREFIX[m]
        lens = range(0, 21) if full else (0, 1, 8, 15, 16, 17, 20)
        for n in lens:
            s = salt(rng, n)
            out += [p + s, p + s + "$"]
        for r in ("1000", "1001", "4999", "5000", "5001") + (("1234",) if not full else ("1234", "2047")):
            s = salt(rng, rng.choice((4, 16, 18)))
            out += [p + "rounds=" + r + "$" + s, p + "rounds=" + r + "$" + s + "$"]
        out.append(p + "rounds=1000$")                  # empty salt with rounds
        out.append(p + salt(rng, 3) + "$ignored$tail")
    elif m == "md5crypt":
        lens = range(0, 13) if full else (0, 1, 7, 8, 9, 12)
        for n in lens:
            s = salt(rng, n)
            out += ["$1$" + s, "$1$" + s + "$"]
        out.append("$1$" + salt(rng, 4) + "$tail$x")
        out.append("$1$" + "ab#c%d&e")               # unusual but accepted salt characters
    elif m == "sunmd5":
        for n in ((0, 1, 4, 8, 16, 40) if full else (0, 4, 8)):
            s = salt(rng, n)
            for sep in ("$", ","):
                base = "$md5" + sep
                out += [base + s, base + s + "$", base + s + "$$", base + s + "$x"]
                for r in ("1", "17", "904"):
                    out += [base + "rounds=" + r + "$" + s, base + "rounds=" + r + "$" + s + "$",
                            base + "rounds=" + r + "$" + s + "$$"]
        # maximal salts: the output field holds saltlen + 1 + 22 + NUL <= 384
        for n in (340, 354, 355, 356, 357):
            out += ["$md5$" + salt(rng, n), "$md5$" + salt(rng, n) + "$", "$md5$rounds=3$" + salt(rng, n - 9)]
    elif m == "sha1crypt":
        lens = (1, 2, 8, 16, 31, 63, 64) if not full else list(range(1, 65))
        for n in lens:
            s = salt(rng, n)
            it = str(rng.choice((1, 2, 3, 10, 47, 100)))
            out += ["$sha1$" + it + "$" + s, "$sha1$" + it + "$" + s + "$"]
        s = salt(rng, 8)
        out += ["$sha1$010$" + s, "$sha1$+10$" + s, "$sha1$0$" + s, "$sha1$$" + s, "$sha1$7$" + s + "$anything"]
    elif m == "nt":
        out += ["$3$", "$3$$", "$3$anything", "$3$$0123456789abcdef0123456789abcdef"]
    elif m in ("bcrypt", "bcrypt_a", "bcrypt_x", "bcrypt_y"):
        p = PREFIX[m]
        for cost in (("04", "05") if not full else ("04", "05", "06")):
            for _ in range(3):
                s = salt(rng, 21, BF64) + rng.choice(BF64)
                out.append(p + cost + "$" + s)
        out.append(p + "04$" + salt(rng, 21, BF64) + "." )
        out.append(p + "04$" + salt(rng, 21, BF64) + "9" )      # last char with low bits set
        out.append(p + "04$" + salt(rng, 22, BF64) + "trailing")
    elif m in ("yescrypt", "gost_yescrypt"):
        p = PREFIX[m]
        for par in ("j75", "j65", "j85", "j74"):
            for n in ((0, 1, 2, 3, 4, 11, 22, 43, 86) if full else (0, 2, 4, 22, 86)):
                if n % 4 == 1:
                    n += 1
                s = salt(rng, n)
                out += [p + par + "$" + s, p + par + "$" + s + "$"]
        out.append(p + "j75$" + salt(rng, 8) + "$" + salt(rng, 43))
        out.append(p + "j75$" + salt(rng, 85) + "." + "$" + salt(rng, 200))       # setting near the 339 limit
        out.append(p + "j75$" + salt(rng, 8) + "$" + salt(rng, 10) + "$extra")
    elif m == "scrypt":
        for n in (0, 1, 4, 8, 22, 43):
            s = salt(rng, n)
            out += ["$7$66..../...." + s, "$7$66..../...." + s + "$"]
        out.append("$7$66..../....ab$cd")                  # salt containing '$'
        out.append("$7$56..../....salt")
        out.append("$7$64..../....salt")
    elif m == "bsdicrypt":
        for cnt in ("/...", "5...", "J9..", "....", "2..."):
            out.append("_" + cnt + salt(rng, 4))
        out.append("_/..." + salt(rng, 4) + "trailing.chars")
    elif m in ("descrypt", "bigcrypt"):
        for _ in range(4):
            out.append(salt(rng, 2))
        out.append(salt(rng, 2) + salt(rng, 11))
        out.append(salt(rng, 2) + salt(rng, 12))           # 14 chars: too long for descrypt
        out.append(salt(rng, 2) + salt(rng, 22))
        out.append(salt(rng, 2) + "$$$$")
    return out


def phrases(rng, full=False):
    """Phrases: length classes x ASCII / 8-bit content (never NUL)."""
    lens = [0, 1, 7, 8, 9, 16, 17, 55, 56, 63, 64, 65, 72, 73, 111, 112, 127, 128, 129, 200, 255, 256, 511] if full \
        else [0, 1, 8, 9, 16, 63, 64, 72, 73, 128, 129, 200, 511]
    out = []
    for n in lens:
        out.append(bytes(rng.choice(range(33, 127)) for _ in range(n)))
        if n:
            out.append(bytes(rng.choice(range(1, 256)) for _ in range(n)))
    return out


def rand_phrase(rng, n, eightbit=True):
    return bytes(rng.choice(range(1, 256) if eightbit else range(33, 127)) for _ in range(n))


INVALID_SETTINGS = [
    "", "*", "*0", "*1", "*0xxxx", "!", "!!", "x", "$", "$$", "$9$x", "$2$04$abc", "$2z$04$" + "a" * 22,
    "$md5x", "$md5", "$sha1", "$sha1$", "$sha1$10", "$sha1$10$", "$sha1$x$salt", "$1", "$5", "$6$rounds=0$x",
    "$6$rounds=999$x", "$6$rounds=1000000000$x", "$6$rounds=05000$x", "$6$rounds=5000x$y", "$6$rounds=$x",
    "$5$rounds=99999999999999999999$x", "$y$", "$y$j", "$y$j7", "$y$j75", "$y$j75$a", "$gy$", "$gy$j75$a", "$7$", "$7$6",
    "$7$66..../...", "$2b$", "$2b$04", "$2b$04$", "$2b$04$short", "$2b$03$" + "a" * 22, "$2b$32$" + "a" * 22,
    "$2b$4$" + "a" * 23, "$2b$04$" + "a" * 21 + "!", "_", "_/...", "_/...sal", "_/...sal!", "_/..$salt", "a", "a!",
    "a b", "ab\n", "ab:cd", "ab;cd", "ab\\cd", "$1$ab:cd", "$6$ab cd", "$6$ab\x7f", "$6$ab\x80", "$1$\x01",
    "$md5,rounds=0$abc", "$md5$rounds=01$abc", "$md5$rounds=4294967296$abc", "$md5$rounds=5", "$md5$abc!d",
    "$md5xabc", "$md5$abc-d", "$3", "$4$abc", "$8$", "$x$", "-a", "a-", "\xc3\xa9x", "~~",
]


def numeric_wrap_settings():
    """decimal cost fields written as v + k*2^32 / v + 2^64 for a value v that would be valid: an implementation
    that parses into a narrower type and wraps accepts them as v; the specification compares digit strings"""
    out = []
    for k in (2 ** 32, 2 ** 33, 3 * 2 ** 32, 2 ** 64, 2 ** 64 + 2 ** 32):
        for v in (1000, 5000, 999999999):
            out += ["$5$rounds=%d$saltstring" % (v + k), "$6$rounds=%d$saltstring" % (v + k)]
        for v in (1, 7):
            out += ["$md5$rounds=%d$saltstr" % (v + k), "$md5,rounds=%d$saltstr" % (v + k)]
        # (sha1crypt has no upper bound: $sha1$4294967300$ is a valid request for 4.29e9 iterations, never run here)
    out += ["$5$rounds=4294967296$s", "$6$rounds=4294967296$s", "$5$rounds=18446744073709551616$s", "$6$rounds=18446744073709552616$s",
            "$md5$rounds=18446744073709551617$s"]
    return out


INVALID_SETTINGS += numeric_wrap_settings()


def cost_field_neighbours():
    """cost fields whose characters are next to the valid ones: a non-digit in bcrypt's two-digit cost (only the
    ones an arithmetic parser would read as a SMALL cost are listed: a logarithmic cost of 17 or more is hours),
    scrypt/yescrypt N_log2 characters of 32 and more (N > UINT32_MAX; a 32-bit shift wraps them to small N)"""
    out = []
    salt22 = "abcdefghijklmnopqrstuu"
    for tag in ("$2a$", "$2b$", "$2x$", "$2y$"):
        for c in ("0<", "0=", "0/", "0.", "/4", ".4", "+4", "-4", "4", "004", "0x4", " 4", "4 "):
            out.append(tag + c + "$" + salt22)
    for ch in "WXYZabcdz":                       # N_log2 = 34.. : 2^(N_log2 - 32) would be cheap
        out += ["$7$" + ch + "/..../....saltsalt", "$y$j" + ch + "5$saltsalt", "$gy$j" + ch + "5$saltsalt"]
    out += ["$7$./..../....saltsalt", "$7$U/..../....saltsalt", "$7$V/..../....saltsalt"]      # N_log2 = 0, 32, 33
    return out


INVALID_SETTINGS += cost_field_neighbours()





def ynum(v, minv):
    """yescrypt's variable-length numeral for small values (one character for v - minv <= 47, else two)"""
    v -= minv
    if v <= 47:
        return B64[v]
    v -= 48
    return B64[48 + (v >> 6)] + B64[v & 63]


def yescrypt_params(nlog2, r, p=1, t=0, tag="$y$", flavor="j"):
    s = tag + flavor + ynum(nlog2, 1) + ynum(r, 1)
    have = (1 if p != 1 else 0) | (2 if t else 0)
    if have:
        s += ynum(have, 1)
        if have & 1:
            s += ynum(p, 2)
        if have & 2:
            s += ynum(t, 1)
    return s + "$"


def yescrypt_param_sweep(rng, full=False):
    """settings over N, r, p, t with tiny memory cost (the loop-count arithmetic of smix depends on all four)"""
    out = []
    for nl in (range(4, 11) if full else (4, 5, 6, 7, 8, 10)):
        for r in ((1, 2, 8) if full else (1, 8)):
            # (p that does not divide N: the last lane gets a longer chunk than the others)
            for p in ((1, 2, 3, 4, 5, 6, 7) if full or nl <= 8 else (1, 2, 4)):
                for tt in (0, 1, 2, 3):
                    for tag in (("$y$", "$gy$") if (nl + r + p + tt) % 3 == 0 or full else ("$y$",)):
                        out.append(yescrypt_params(nl, r, p, tt, tag) + ysalt(rng, rng.choice((4, 8))))
    # the boundaries of the pre-hash pass of yescrypt-RW: N/p >= 0x100 and (N/p)*r >= 0x20000 (16..48 MiB)
    for nl, r, p in ((8, 512, 1), (8, 511, 1), (9, 512, 2), (9, 256, 1), (9, 255, 1), (10, 384, 3), (10, 385, 3), (7, 1024, 1)):
        out.append(yescrypt_params(nl, r, p, 0, "$y$") + ysalt(rng, 8))
    out.append(yescrypt_params(8, 512, 1, 0, "$gy$") + ysalt(rng, 8))
    # ... and the pre-hash pass together with t > 0 and p > 1 (the pre-hash itself always runs with t = 0)
    for nl, r, p, tt in ((8, 512, 1, 1), (8, 512, 1, 2), (12, 32, 1, 1), (12, 32, 1, 2), (12, 32, 2, 1), (9, 512, 2, 3)):
        out.append(yescrypt_params(nl, r, p, tt, "$y$") + ysalt(rng, 8))
    out.append(yescrypt_params(12, 32, 1, 1, "$gy$") + ysalt(rng, 8))
    # scrypt with r*p >= 2^14: PBKDF2's block counter passes 65535 (N = 4 keeps it at about a second)
    out += ["$7$0/......2.." + salt(rng, 8), "$7$00......0.." + salt(rng, 8)]
    for nl in (4, 6, 8):
        for p in (1, 2, 4):
            out.append("$7$" + B64[nl] + "/...." + B64[p] + "...." + salt(rng, 6))       # scrypt N, r=1, p
    return out


def _dec64var(s, i, minv):
    """decode64_uint32 of alg-yescrypt-common.c: (value, next index) or None"""
    if i >= len(s) or s[i] not in B64:
        return None
    start, end, chars, bits = 0, 47, 1, 0
    c = B64.index(s[i]); i += 1
    v = minv
    while c > end:
        v += (end + 1 - start) << bits
        start = end + 1
        end = start + (62 - end) // 2
        chars += 1
        bits += 6
    v += (c - start) << bits
    while chars > 1:
        chars -= 1
        if i >= len(s) or s[i] not in B64 or bits < 6:
            return None
        bits -= 6
        v += B64.index(s[i]) << bits
        i += 1
    return v, i


def yescrypt_work(s):
    """a rough work estimate (block mixes) of a $y$/$gy$ setting as the library would decode it, or 0 if the
    parameter string does not decode (then the call is refused at once).  Used only to keep generated settings within
    the compute budget (DESIGN.md section 4): a valid setting with t = 10^6 is a request for hours of work."""
    body = s[3:] if s.startswith("$y$") else s[4:] if s.startswith("$gy$") else None
    if body is None:
        return 0
    i = 0
    vals = []
    for minv in (0, 1, 1):                       # flavor, N_log2, r
        d = _dec64var(body, i, minv)
        if d is None:
            return 0
        vals.append(d[0]); i = d[1]
    fl, nl, r = vals
    p, tt = 1, 0
    if i < len(body) and body[i] != "$":
        d = _dec64var(body, i, 1)
        if d is None:
            return 0
        have, i = d
        for bit, minv in ((1, 2), (2, 1), (4, 1), (8, 1)):
            if have & bit:
                d = _dec64var(body, i, minv)
                if d is None:
                    return 0
                if bit == 1: p = d[0]
                if bit == 2: tt = d[0]
                i = d[1]
    if nl > 31:
        return 0
    return (1 << nl) * max(r, 1) * max(p, 1) * (tt + 1)


def yescrypt_malformed_params(rng, full=False):
    """every character in the optional-parameter positions after '$y$j65' (have, p, t, g, NROM fields), cheap N"""
    out = []
    ys = list(B64) if full else [c for i, c in enumerate(B64) if i < 20 or i % 5 == 0]
    for tag in ("$y$", "$gy$"):
        for x in B64:
            out += [tag + "j65" + x, tag + "j65" + x + "$" + "abcd", tag + "j65" + x + "$"]
            for y in ys:
                out.append(tag + "j65" + x + y + "$abcd")
                out.append(tag + "j65" + x + y)
            for _ in range(6 if full else 2):
                out.append(tag + "j65" + x + salt(rng, rng.choice((2, 3, 4))) + "$abcd")
    # (random optional fields can spell t or p in the millions: such a setting is valid and simply takes hours)
    return [s for s in out if yescrypt_work(s) <= 1 << 24]


def bcrypt_sign_family(rng):
    """keys that exercise the $2x$ sign-extension emulation and the $2a$ collision counter-measure:
    8-bit bytes at every position of the 4-byte key groups, with and without a preceding 0xff"""
    out = []
    for n in (2, 3, 4, 5, 7, 8, 9, 12):
        for pos in range(min(n, 8)):
            for hi in (0x80, 0xa3, 0xff):
                k = bytearray(rand_phrase(rng, n, eightbit=False))
                k[pos] = hi
                out.append(bytes(k))
                if pos:
                    k2 = bytearray(k)
                    k2[pos - 1] = 0xff
                    out.append(bytes(k2))
    out += [b"\xff\xa3a", b"\xff\xa3abcde", b"\xa3", b"\xff\xff\xa3", b"\xff\xa334\xff\xff\xff\xa3345", b"1\xa3345", b"\xff\xa3345"]
    return out


def grammar_boundaries(m, rng):
    """Settings at the edges of method m's setting grammar: every field empty / shortest / longest / one longer,
    numeric fields at and around their limits and in odd spellings, optional separators present and absent.
    Whether each is to be accepted is decided by Settings.tla; what it hashes to by the released library.
    Only cheap costs are listed (a valid setting must stay within the compute budget, DESIGN.md section 4)."""
    S = lambda n: salt(rng, n)
    out = []
    if m == "md5crypt":
        out += ["$1$" + S(n) for n in range(0, 11)] + ["$1$" + S(n) + "$" for n in (0, 1, 7, 8, 9)]
        out += ["$1", "$1$$", "$1$$$", "$1$" + S(4) + "$junk", "$1$" + S(8) + "$" + S(22), "$1$" + S(3) + "-" + S(3), "$1$ab,cd", "$1$ab+cd", "$1$ab=cd"]
    elif m in ("sha256crypt", "sha512crypt"):
        p = PREFIX[m]
        out += [p + S(n) for n in range(0, 19)] + [p + S(n) + "$" for n in (0, 1, 15, 16, 17)]
        for r in ("999", "1000", "1001", "4999", "5000", "5001", "9999", "10000", "01000", "+1000", "-1000", "1000x", "", "1e3", "0x3e8",
                  "1000.", " 1000", "1000 ", "00", "0"):
            out += [p + "rounds=" + r + "$" + S(8), p + "rounds=" + r]
        out += [p + "rounds=1000" + S(4), p + "rounds=1000$", p + "rounds=1000$$", p + "rounds=1000$" + S(16) + "$", p + "rounds=1000$" + S(17),
                p + "round=1000$" + S(4), p + "rounds1000$" + S(4), p + "Rounds=1000$" + S(4), p + "rounds=1000,$" + S(4), p[:-1], p + "$", p + S(5) + "-" + S(2)]
    elif m == "sunmd5":
        for head in ("$md5$", "$md5,"):
            out += [head + S(n) for n in (0, 1, 7, 8, 9, 16, 40)] + [head + S(n) + "$" for n in (0, 1, 8, 9)] + [head + S(n) + "$$" for n in (0, 1, 8, 9)]
            for r in ("0", "1", "2", "9", "10", "65536", "01", "+1", "-1", "1x", "", " 1"):
                out += [head + "rounds=" + r + "$" + S(8), head + "rounds=" + r + "$" + S(8) + "$", head + "rounds=" + r]
        # the rounds= value is added to the 4096 basic rounds in 32-bit arithmetic: the top of the accepted range wraps to few rounds
        out += ["$md5$rounds=%d$%s" % (n, S(8)) for n in (4294967295, 4294967294, 4294963200, 4294963201, 4294965000)]
        out += ["$md5", "$md5x", "$md5$$", "$md5$$$", "$md5$" + S(8) + "$x", "$md5$" + S(8) + "$$x", "$md5$" + S(8) + "$" + S(22), "$md5$" + S(3) + "-" + S(3),
                "$md5$rounds=1$", "$md5$rounds=1$$", "$md5$rounds=1", "$md5,rounds=1," + S(4), "$md5$round=1$" + S(4)]
    elif m == "sha1crypt":
        for it in ("0", "1", "2", "9", "10", "11", "010", "+5", "-0", " 5", "5 ", "", "5x", "0x5", "00000000005"):
            out += ["$sha1$" + it + "$" + S(8), "$sha1$" + it + "$" + S(8) + "$", "$sha1$" + it]
        out += ["$sha1$5$" + S(n) for n in (0, 1, 2, 62, 63, 64, 65)] + ["$sha1$5$" + S(n) + "$" + S(28) for n in (1, 64)]
        out += ["$sha1", "$sha1$", "$sha1$$", "$sha1$5$$", "$sha1$5$" + S(3) + "-" + S(3), "$sha1x5$" + S(4), "$sha15$" + S(4)]
    elif m == "nt":
        out += ["$3", "$3$", "$3$$", "$3$$$", "$3$junk", "$3$$" + "0" * 32, "$3$$" + "g" * 32, "$3$" + S(8) + "$", "$3x"]
    elif m in ("bcrypt", "bcrypt_a", "bcrypt_x", "bcrypt_y"):
        p = PREFIX[m]
        for c in ("03", "04", "05", "06", "07", "08", "09", "10", "4", "004", "32", "99", "", "0 4", "4$", "x4", "4x", "0x", "0b", "4.", "+4", "-4", " 4"):
            out.append(p + c + "$" + salt(rng, 22, BF64))
        for n in (0, 1, 20, 21, 22, 23, 30, 53):
            out.append(p + "04$" + salt(rng, n, BF64))
        out += [p + "04$" + salt(rng, 21, BF64) + c for c in ".OeuA/9zZ"]          # every class of 22nd character
        out += [p + "04" + salt(rng, 22, BF64), p + "04$" + salt(rng, 10, BF64) + "$" + salt(rng, 11, BF64), p + "04$" + salt(rng, 10, BF64) + "-" + salt(rng, 11, BF64),
                p[:-1], p + "04$" + salt(rng, 22, BF64) + "$", p + "04$" + salt(rng, 22, BF64) + salt(rng, 31, BF64)]
    elif m == "bsdicrypt":
        for c in ("....", "/...", "0...", "./..", "z...", "zz..", "..../", "...."):
            out.append("_" + c + S(4))
        out += ["_", "_/", "_/..", "_/...", "_/..." + S(1), "_/..." + S(3), "_/..." + S(4) + S(11), "_/..." + S(4) + "x" * 20, "_/..." + S(4) + "$", "_/...$" + S(3),
                "_/..-" + S(4), "__..." + S(4), "_/..._" + S(3)]
    elif m in ("descrypt", "bigcrypt"):
        out += ["", ".", "..", "zz", "./", "/.", "Az", "9a", "a", "ab" + S(11), "ab" + S(12), "ab" + S(22), "ab" + S(23), "ab$", "a$", "$a", "ab" + "-" * 11, "ab" + S(5) + "-" + S(5),
                "a-", "-a", "ab" + S(11) + "-", "ab" + S(180)]
    elif m in ("yescrypt", "gost_yescrypt"):
        p = PREFIX[m]
        for n in (0, 1, 2, 3, 4, 5, 6, 22, 43, 84, 85, 86, 87, 88, 100):
            out += [p + "j65$" + ysalt(rng, n) if n <= 86 else p + "j65$" + S(n)]
        out += [p + "j65$" + ysalt(rng, 8) + "$", p + "j65$" + ysalt(rng, 8) + "$junk", p + "j65$" + ysalt(rng, 8) + "$" + S(43), p + "j65$$", p + "j65$$" + S(43),
                p + "j65", p + "j6", p + "j", p, p[:-1], p + "j65$" + S(3) + "-" + S(3), p + "j.5$" + ysalt(rng, 4), p + "j/5$" + ysalt(rng, 4), p + "j05$" + ysalt(rng, 4),
                p + "j6.$" + ysalt(rng, 4), p + "j6/$" + ysalt(rng, 4), p + "j6z$" + ysalt(rng, 4), p + "k65$" + ysalt(rng, 4), p + "i65$" + ysalt(rng, 4), p + "z65$" + ysalt(rng, 4),
                p + "j65$" + S(1), p + "j65$" + S(2), p + "j65$" + S(5)]            # non-canonical short salts
    elif m == "scrypt":
        for nch in "./0123456789AB":
            out.append("$7$" + nch + "/..../...." + S(8))
        for r in ("/....", "0....", ".....", "z....", "./...", "....."):
            out.append("$7$4" + r + "/...." + S(8))
        for pp in ("/....", "0....", ".....", "1....", "./..."):
            out.append("$7$4/...." + pp + S(8))
        # '$' is allowed INSIDE a $7$ salt: the salt ends at the LAST '$' (trailing '$', a hash part, several '$')
        out += ["$7$4/..../....ab$cd$", "$7$4/..../....ab$cd$ef", "$7$4/..../....a$$b$", "$7$4/..../....$$", "$7$4/..../....ab$cd$" + S(43),
                "$7$4/..../....So$dium$Chloride$"]
        # salts so long that the RESULT comes close to the 384-byte output field (a result longer than 339 characters must
        # still be accepted back as a setting)
        out += ["$7$4/..../...." + S(n) for n in (280, 281, 282, 300, 324, 325, 326)]
        out += ["$7$4/..../...." + S(n) for n in (0, 1, 2, 43, 64, 100)] + ["$7$4/..../...." + S(8) + "$", "$7$4/..../...." + S(8) + "$junk", "$7$4/..../....$",
                "$7$4/..../....$" + S(43), "$7$4/..../...", "$7$4/....", "$7$4", "$7$", "$7", "$7$4/..../...-" + S(4), "$7$4/..../...." + S(3) + "-" + S(3),
                "$7$4/..-./...." + S(4)]
    return out


def yparams_full(tag, flavor, nlog2, r, p=None, t=None, g=None, nrom=None):
    """a yescrypt parameter string with any subset of the optional fields p, t, g, NROM (have bits 1, 2, 4, 8)"""
    s = tag + flavor + ynum(nlog2, 1) + ynum(r, 1)
    have = (1 if p is not None else 0) | (2 if t is not None else 0) | (4 if g is not None else 0) | (8 if nrom is not None else 0)
    if have:
        s += ynum(have, 1)
        if p is not None: s += ynum(p, 2)
        if t is not None: s += ynum(t, 1)
        if g is not None: s += ynum(g, 1)
        if nrom is not None: s += ynum(nrom, 1)
    return s + "$"


def kdf_rejected_params():
    """yescrypt-family settings whose parameters DECODE but which yescrypt_kdf must refuse before allocating:
    other flavours / modes, t, g or NROM where not allowed, N <= 3, N/p <= 3, r*p >= 2^30, r or p = 0"""
    out = []
    ys = "saltsalt"
    for tag in ("$y$", "$gy$"):
        for fl in ".", "/", "0", "1", "2", "i", "k", "l", "T":           # classic / WORM / unsupported pwxform flavours
            out += [yparams_full(tag, fl, 6, 5) + ys, yparams_full(tag, fl, 6, 5, t=1) + ys]
        out += [yparams_full(tag, "j", 1, 5) + ys, yparams_full(tag, "j", 2, 5, p=2) + ys, yparams_full(tag, "j", 3, 5, p=2) + ys,
                yparams_full(tag, "j", 3, 5, p=3) + ys, yparams_full(tag, "j", 6, 5, p=40) + ys,                 # N <= 3, N/p <= 3
                # floor(N/p) exactly 3 (refused) next to exactly 4 (accepted)
                yparams_full(tag, "j", 4, 5, p=5) + ys, yparams_full(tag, "j", 5, 5, p=9) + ys, yparams_full(tag, "j", 5, 5, p=10) + ys,
                yparams_full(tag, "j", 6, 5, p=17) + ys, yparams_full(tag, "j", 6, 5, p=21) + ys, yparams_full(tag, "j", 4, 5, p=4) + ys,
                yparams_full(tag, "j", 5, 5, p=8) + ys, yparams_full(tag, "j", 6, 5, p=16) + ys]
        out += [yparams_full(tag, "j", 6, 5, g=1) + ys, yparams_full(tag, "j", 6, 5, g=2) + ys, yparams_full(tag, "j", 6, 5, p=2, t=1, g=1) + ys]
        # g in the classic and WORM flavours; flavour numbers of 48 and more (two-character numerals), among them the ones
        # whose bits are a superset of flavour j's
        for fl in (".", "/"):
            out += [yparams_full(tag, fl, 6, 5, g=1) + ys, yparams_full(tag, fl, 6, 5, g=2) + ys, yparams_full(tag, fl, 6, 5, p=2, g=1) + ys]
        for fl in ("k.", "k/", "kD", "kz", "nF", "l.", "z.", "zz", "j.", "y/"):
            out += [tag + fl + ynum(6, 1) + ynum(5, 1) + "$" + ys]
        out += [yparams_full(tag, "j", 6, 5, nrom=10) + ys, yparams_full(tag, "j", 6, 5, p=2, t=1, g=1, nrom=12) + ys, yparams_full(tag, "j", 6, 5, t=0, nrom=3) + ys]
    for r, pp in (".....", "/...."), ("/....", "....."), (".....", "....."), ("....E", "....E"), ("zzzzz", "zzzzz"), ("....2", "....2"):
        out.append("$7$4" + r + pp + ys)
    out += ["$7$//..../...." + ys, "$7$./..../...." + ys]                     # N = 2 and N_log2 = 0
    return out


INVALID_SETTINGS += kdf_rejected_params()


# bigcrypt phrases (searched once with the released library) in which the salt chained out of the SECOND segment's
# digest equals the setting's salt (first four) or the salt chained out of the first segment (last two): the corner a
# "skip des_set_salt when the salt did not change" shortcut gets wrong.  Setting = salt + 22 filler characters.
BIGCRYPT_CHAIN_COLLISIONS = [
    ("u8jzPde0HubGilj2tail-seg", "ab"), ("Wo9TPhu5GRIJ1c0vtail-seg", "zQ"), ("YbqPWZeyaIzfTfdotail-seg", ".."), ("FXcT79NpzWR39I5Ltail-seg", "9/"),
    ("Nqrm8s3pZCK18Udlthird..!", "cd"), ("JTObP9gtUmkiFSfathird..!", "Xy"),
]


def zero_settings(m, rng):
    """settings whose salt (and, where the grammar allows, count) decodes to all-zero bits or is empty: code that
    skips an initialisation 'because the value is zero anyway' relies on scratch memory being zero"""
    return {"descrypt": ["..", "./"], "bigcrypt": [".." + "." * 22, "..", "./" + salt(rng, 11)], "bsdicrypt": ["_/.......", "_........"],
            "md5crypt": ["$1$", "$1$$"], "sha256crypt": ["$5$", "$5$rounds=1000$"], "sha512crypt": ["$6$", "$6$rounds=1000$"],
            "sha1crypt": ["$sha1$1$."], "sunmd5": ["$md5$", "$md5$rounds=1$"], "nt": ["$3$"],
            "bcrypt": ["$2b$04$" + "." * 22], "bcrypt_a": ["$2a$04$" + "." * 22], "bcrypt_x": ["$2x$04$" + "." * 22], "bcrypt_y": ["$2y$04$" + "." * 22],
            "yescrypt": ["$y$j65$", "$y$j65$...."], "gost_yescrypt": ["$gy$j65$", "$gy$j65$...."], "scrypt": ["$7$4/..../....", "$7$4/..../........"]}.get(m, [])


def block_boundary_settings(m, rng):
    """settings whose salt makes the salt-dependent message of the method's first keyed hash end at, just before or just
    after a 64-byte block boundary (where implementations switch between a fast path and the generic one)"""
    if m == "scrypt":
        return ["$7$4/..../...." + salt(rng, n) for n in (51, 52, 57, 60, 63, 64, 116)]
    if m in ("yescrypt", "gost_yescrypt"):
        return [PREFIX[m] + "j65$" + ysalt(rng, n) for n in (43, 70, 80, 86)]          # 32, 52, 60, 64 salt bytes
    if m == "sha1crypt":
        return ["$sha1$20$" + salt(rng, n) for n in (46, 47, 48, 55, 56, 64)]          # salt + "$sha1$" + "20" = 54..56, 63, 64, 72
    if m == "sunmd5":
        return ["$md5$rounds=1$" + salt(rng, n) for n in (40, 41, 42, 50)]
    if m in ("sha256crypt", "sha512crypt"):
        return [PREFIX[m] + "rounds=1000$" + salt(rng, 16)]
    return []




def salt_length_bad_char(m, rng):
    """an unterminated salt of EVERY length the field can have (and a few beyond) that is clean except for one printable
    character outside the method's salt alphabet -- first, middle or last: a validation whose extent is derived from the
    length of the setting (tail heuristics, "only the echoed part") has lengths at which it looks at nothing"""
    head = {"scrypt": "$7$4/..../....", "yescrypt": "$y$j65$", "gost_yescrypt": "$gy$j65$", "sha1crypt": "$sha1$5$"}.get(m)
    if head is None:
        return []
    out = []
    for L in range(1, 92 if m != "sha1crypt" else 70):
        for pos in sorted({0, L // 2, L - 1}):
            body = salt(rng, L)
            out.append(head + body[:pos] + rng.choice("-=+,_@#%&~") + body[pos + 1:])
    return out


def noncanonical_salt_lengths(m, rng):
    """yescrypt-family salt fields of EVERY length up to the maximum (and two beyond) made of random alphabet characters:
    most of them leave non-zero left-over bits in the last character or have an impossible length -- whether each is to be
    accepted is Settings.tla's decision (ParseYescrypt); a decoder that stops looking once its buffer is full accepts them"""
    head = {"yescrypt": "$y$j65$", "gost_yescrypt": "$gy$j65$"}.get(m)
    if head is None:
        return []
    out = []
    for L in range(1, 89):
        out.append(head + salt(rng, L))
        out.append(head + salt(rng, L - 1) + rng.choice("zZyx9"))       # high bits of the last character set
        if L in (43, 86):
            out += [head + salt(rng, L - 1) + c for c in "./01z"]
    return out

def late_bad_char_settings(m, rng):
    """long settings (around and beyond the 384-byte output size) that are clean except for ONE forbidden byte far from the
    start -- at 382, 383, 384, 385, in the middle of the tail, at the very end: the generic character check covers the
    whole string, however long"""
    base = {"md5crypt": "$1$" + salt(rng, 8) + "$", "sha256crypt": "$5$" + salt(rng, 16) + "$", "sha512crypt": "$6$rounds=1000$" + salt(rng, 16) + "$",
            "descrypt": salt(rng, 2), "bigcrypt": salt(rng, 2), "bsdicrypt": "_J9.." + salt(rng, 4), "nt": "$3$$",
            "bcrypt": "$2b$04$" + salt(rng, 22, BF64), "sha1crypt": "$sha1$5$" + salt(rng, 8) + "$", "sunmd5": "$md5$rounds=1$" + salt(rng, 8) + "$$"}.get(m)
    if base is None:
        return []
    out = []
    for total in (386, 400, 1000, 5000):
        for pos in (382, 383, 384, 385, total // 2 + 200 if total > 800 else 385, total - 1):
            if pos < len(base) or pos >= total:
                continue
            bad = rng.choice(":;*!\\ \n\x7f\x80\xff")
            body = base + salt(rng, total - len(base))
            out.append(body[:pos] + bad + body[pos + 1:])
    return out
