#!/bin/bash
# seedtest.sh <patch> <prop> [tier]  : apply a seeded change to /repo, run ./check <prop>, undo it straight afterwards.
# prints DETECTED / MISSED / BROKEN
P=$1; PROP=$2; TIER=${3:-quick}; case "$P" in /*) ;; *) P=/verif/seeded/$P/patch.diff;; esac
cd /verif
git -C /repo diff --quiet || { echo "repo dirty"; exit 2; }
git -C /repo apply "$P" || { echo "patch does not apply"; exit 2; }
trap 'git -C /repo checkout -- . ' EXIT
out=$(./check $PROP $TIER 2>&1); rc=$?
echo "$out" | grep -E 'VIOLATION|KNOWN|BROKEN|BUILD' | head -5 | cut -c1-300
case $rc in 0) echo "MISSED $PROP $(basename $(dirname $(dirname $P)) 2>/dev/null) $P";; 1) echo "DETECTED $PROP $P";; *) echo "BROKEN($rc) $PROP $P"; echo "$out" | tail -5 | cut -c1-300;; esac
