#!/bin/bash
# seedtest.sh <seed-name|patch> <prop> [tier] : run ./check <prop> against a private scratch copy of /repo with the
# seeded change applied (VERIF_REPO), so /repo itself is never touched.  Prints DETECTED / MISSED / BROKEN.
P=$1; PROP=$2; TIER=${3:-quick}; case "$P" in /*) ;; *) P=/verif/seeded/$P/patch.diff;; esac
cd /verif
R=$(mktemp -d /var/tmp/seedrepo.XXXXXX); trap 'rm -rf $R' EXIT
cp -a /repo/. $R/ && git -C $R checkout -q -- . 
git -C $R apply "$P" || { echo "patch does not apply"; exit 2; }
out=$(VERIF_REPO=$R VERIF_EVIDENCE_DIR=$R/.verif-evidence ./check $PROP $TIER 2>&1); rc=$?
echo "$out" | grep -E 'VIOLATION|KNOWN|BROKEN|BUILD' | head -3 | cut -c1-220
case $rc in 0) echo "MISSED $PROP $P";; 1) echo "DETECTED $PROP $P";; *) echo "BROKEN($rc) $PROP $P"; echo "$out" | tail -5 | cut -c1-300;; esac
