#!/bin/bash
# setup: everything is built from files on disk at check time; here we only verify the toolchain
# and SANY-parse every specification module.
set -e
cd "$(dirname "$0")/.."
for t in java tlc tla-sany gcc perl python3 nm; do command -v $t >/dev/null || { echo "missing tool $t"; exit 1; }; done
cd spec
for f in *.tla; do
  tla-sany "$f" > /tmp/sany.$$ 2>&1 || { cat /tmp/sany.$$; rm -f /tmp/sany.$$; echo "SANY failed on $f"; exit 1; }
done
rm -f /tmp/sany.$$
cd ..
# non-vacuity of the model invariants: the mutant (token written after the size check) must violate them
out=$(cd spec && timeout 300 tlc -workers 2 -metadir ${VERIF_SCRATCH:-/var/tmp}/xcv.setup.$$ -config XCryptMC_mutant.cfg XCryptMC.tla 2>&1; rm -rf ${VERIF_SCRATCH:-/var/tmp}/xcv.setup.$$)
echo "$out" | grep -q 'Invariant .* is violated' || { echo "non-vacuity check failed: mutant model not rejected"; exit 1; }
# the trace specification is bound to what is recorded: corrupted traces are rejected
tools/selftest-binding.sh
echo "setup ok"
