#!/bin/bash
# setup: everything is built from files on disk at check time; here we only verify the toolchain
# and SANY-parse every specification module.
set -e
cd "$(dirname "$0")/.."
for t in java tlc tla-sany gcc perl python3 nm; do command -v $t >/dev/null || { echo "missing tool $t"; exit 1; }; done
cd spec
for f in *.tla; do
  tla-sany "$f" > /tmp/sany.$$ 2>&1 || { cat /tmp/sany.$$; rm -f /tmp/sany.$$; echo "SANY failed on $f"; exit 1; }
done
rm -f /tmp/sany.$$
echo "setup ok"
