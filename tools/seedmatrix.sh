#!/bin/bash
# seedmatrix.sh [tier] : run every seeded change against its own property's check, in parallel, each on a
# private scratch copy of /repo (VERIF_REPO); results in /var/tmp/seedmatrix/<seed>.txt
TIER=${1:-quick}
OUT=/var/tmp/seedmatrix; rm -rf $OUT; mkdir -p $OUT
cd /verif
run_one() {
  s=$1; P=$(python3 -c "
import json,re,sys
m=json.load(open('/verif/seeded/$1/meta.json'))
src=(m.get('caught_by') or '')+' '+str(m.get('property') or '')+' $1'
print(re.search(r'C[0-9][0-9]',src).group(0))")
  R=$(mktemp -d /var/tmp/seedrepo.XXXXXX)
  cp -a /repo/. $R/
  if ! git -C $R apply /verif/seeded/$s/patch.diff 2>$OUT/$s.err; then echo "NOAPPLY $s" > $OUT/$s.txt; rm -rf $R; return; fi
  VERIF_REPO=$R VERIF_EVIDENCE_DIR=$R/.verif-evidence ./check $P $TIER > $OUT/$s.log 2>&1; rc=$?
  case $rc in 0) echo "MISSED $s";; 1) echo "DETECTED $s $(grep -m1 VIOLATION $OUT/$s.log | sed 's/.*# //' | cut -c1-100)";; *) echo "BROKEN($rc) $s";; esac > $OUT/$s.txt
  rm -rf $R
}
export -f run_one; export OUT TIER
for m in m1 m2; do
  ls seeded | grep -- "-$m\$" | xargs -P 7 -I{} bash -c 'run_one {}'
done
cat $OUT/*.txt
