"""Per-property checks.  Each returns (level, coverage, assumptions) and records violations in ctx."""
import json, os, re, glob, random, subprocess, time
import vlib, gen
from vlib import hx, annotate, Broken, SIZEOF, SPEC

REGISTRY = {}


def prop(name):
    def deco(f):
        REGISTRY[name] = f
        return f
    return deco


def match_known(known, p, what, payload):
    for k in known.get("open", []):
        if k["property"] == p and re.search(k["match"], json.dumps(payload, sort_keys=True, default=str)):
            return k["what"]
    return None


# ----------------------------------------------------------------------------- helpers
def config_event(ctx, flavour="hooks"):
    b = ctx.build(flavour)
    inc = os.path.join(b, "inc")
    en = re.findall(r"#define INCLUDE_(\w+)\s+1", open(os.path.join(inc, "crypt-hashes.h")).read())
    en = [x for x in en if x in gen.METHODS]
    cfg = open(os.path.join(inc, "config.h")).read()
    ft = 1 if re.search(r"#define ENABLE_FAILURE_TOKENS 1", cfg) else 0
    hdr = open(os.path.join(inc, "crypt.h")).read()
    mm = re.search(r"#define CRYPT_GENSALT_IMPLEMENTS_DEFAULT_PREFIX\s+(\d)", hdr)
    return {"e": "config", "E": en, "failure_tokens": ft, "macro_default_prefix": int(mm.group(1)) if mm else -1}


def model_check(ctx, cfgs, workers=8):
    """Exhaustive TLC runs of the API model; returns (states, transitions)."""
    st = tr = 0
    # non-vacuity: the deliberately wrong model (token after the size check) must violate an invariant
    m = ctx.tlc("XCryptMC.tla", "XCryptMC_mutant.cfg", workers=2, timeout=600)
    if not m["violated"]:
        raise Broken("non-vacuity: the mutant model was not rejected")
    for cfg in cfgs:
        r = ctx.tlc("XCryptMC.tla", cfg, workers=workers, timeout=1500)
        if r["violated"]:
            # a violated invariant of the MODEL is a broken specification, not a finding about the code
            raise Broken("model invariant %s violated in %s" % (r["violated"], cfg))
        if not r["ok"] or "distinct" not in r:
            raise Broken("TLC failed on %s:\n%s" % (cfg, r["out"][-2000:]))
        st += r["distinct"]
        tr += r["generated"]
    return st, tr


def behaviours(ctx, num, depth=30):
    """TLC-generated behaviours of XCryptMC (simulation mode), as lists of abstract calls."""
    d = os.path.join(ctx.dir, "behav")
    os.makedirs(d, exist_ok=True)
    for f in glob.glob(d + "/*"):
        os.unlink(f)
    r = ctx.tlc("XCryptMC.tla", "XCryptMC_sim.cfg", env={"XCV_BEHAV_DIR": d}, workers=1, timeout=900,
                extra=["-simulate", "num=%d" % num, "-depth", str(depth + 1), "-seed", str(ctx.seed)])
    if r["violated"] or not r["ok"]:
        raise Broken("simulation failed: %s" % r["out"][-1500:])
    out = []
    for f in sorted(glob.glob(d + "/*.ndjson")):
        out.append([json.loads(x) for x in open(f) if x.strip()])
    if not out:
        raise Broken("no behaviours exported")
    return out


REQS = ["okA", "okA2", "hashA", "okB", "badchar", "unknown", "star0", "star1", "methfail", "nullphrase", "nullsetting", "longphrase"]
SIZES = ["neg", "0", "1", "2", "small", "sizeof", "big"]


def systematic_behaviours():
    """every abstract call class of the model (entry point x request class x size class) from every prior state of
    the object (fresh, holding a success, holding a failure, scribbled): two-step behaviours, complete"""
    priors = {"fresh": [], "success": [{"fn": "crypt_rn", "o": "o1", "r": "okB", "sz": "sizeof"}],
              "failure": [{"fn": "crypt_rn", "o": "o1", "r": "unknown", "sz": "sizeof"}], "junk": [{"fn": "scribble", "o": "o1", "r": "-", "sz": "-"}]}
    out = []
    for pname, pre in priors.items():
        beh = []
        for r in REQS:
            for sz in SIZES:
                beh += pre + [{"fn": "crypt_rn", "o": "o1", "r": r, "sz": sz}]
            beh += pre + [{"fn": "crypt_r", "o": "o1", "r": r, "sz": "-"}]
        out.append(beh)
        # crypt() and crypt_ra: the prior state lives in the static object / the handle's block
        beh = []
        for r in REQS:
            prior_static = {"fresh": [], "success": [{"fn": "crypt", "o": "nr", "r": "okB", "sz": "-"}],
                            "failure": [{"fn": "crypt", "o": "nr", "r": "unknown", "sz": "-"}], "junk": []}[pname]
            beh += prior_static + [{"fn": "crypt", "o": "nr", "r": r, "sz": "-"}]
            prior_h = {"fresh": [{"fn": "app_free", "o": "h1", "r": "-", "sz": "-"}], "success": [{"fn": "crypt_ra", "o": "h1", "r": "okB", "sz": "-"}],
                       "failure": [{"fn": "crypt_ra", "o": "h1", "r": "unknown", "sz": "-"}],
                       "junk": [{"fn": "app_free", "o": "h1", "r": "-", "sz": "-"}, {"fn": "app_set", "o": "h1", "r": "full", "sz": "exact"}]}[pname]
            beh += prior_h + [{"fn": "crypt_ra", "o": "h1", "r": r, "sz": "-"}]
        out.append(beh)
    return out


CHEAP = {"yescrypt": "$y$j65$", "gost_yescrypt": "$gy$j65$", "scrypt": "$7$56..../....", "bcrypt": "$2b$04$",
         "bcrypt_a": "$2a$04$", "bcrypt_y": "$2y$04$", "bcrypt_x": "$2x$04$", "sha512crypt": "$6$rounds=1000$",
         "sha256crypt": "$5$rounds=1000$", "sha1crypt": "$sha1$20$", "sunmd5": "$md5$rounds=1$",
         "md5crypt": "$1$", "nt": "$3$", "bsdicrypt": "_/...", "bigcrypt": "", "descrypt": ""}
METHFAIL = {"yescrypt": "$y$j65", "gost_yescrypt": "$gy$j65", "scrypt": "$7$5", "bcrypt": "$2b$03$" + "a" * 22,
            "bcrypt_a": "$2a$04$short", "bcrypt_y": "$2y$32$" + "a" * 22, "bcrypt_x": "$2x$4$" + "a" * 23,
            "sha512crypt": "$6$rounds=999$abc", "sha256crypt": "$5$rounds=05000$abc", "sha1crypt": "$sha1$x$abc",
            "sunmd5": "$md5$rounds=0$abc", "md5crypt": None, "nt": None, "bsdicrypt": "_/...sal", "bigcrypt": None,
            "descrypt": None}


def cheap_setting(m, rng):
    base = CHEAP[m]
    if m in ("bcrypt", "bcrypt_a", "bcrypt_y", "bcrypt_x"):
        return base + gen.salt(rng, 21, gen.BF64) + rng.choice(".OeuCGKS")
    if m == "nt":
        return base
    if m in ("bigcrypt", "descrypt"):
        return gen.salt(rng, 2)
    if m == "bsdicrypt":
        return base + gen.salt(rng, 4)
    if m in ("yescrypt", "gost_yescrypt"):
        return base + gen.ysalt(rng, rng.choice((4, 8, 22)))
    # salt lengths up to each method's documented maximum (md5crypt 8, sha2 16, sha1crypt 64; sunmd5 has none)
    maxlen = {"md5crypt": (4, 8), "sha256crypt": (4, 8, 16), "sha512crypt": (4, 8, 16), "sha1crypt": (4, 8, 17, 64),
              "sunmd5": (4, 8, 9, 16, 31), "scrypt": (4, 8, 22)}.get(m, (4, 8))
    return base + gen.salt(rng, rng.choice(maxlen))


def cost_span(m, s):
    """Index range of the cost/parameter field of a setting: mutating it with *valid* characters can
    ask for a cost outside the compute budget (DESIGN.md section 4), so allowed-byte mutations skip it."""
    if m in ("yescrypt",): return range(3, 7)
    if m in ("gost_yescrypt",): return range(4, 8)
    if m == "scrypt": return range(3, 14)          # "$7$" N r(5) p(5): positions 3..13; the salt starts at 14
    if m in ("bcrypt", "bcrypt_a", "bcrypt_x", "bcrypt_y"): return range(4, 7)
    if m == "bsdicrypt": return range(1, 6)
    if m in ("sha512crypt", "sha256crypt"): return range(10, 15)
    if m == "sha1crypt": return range(5, 9)
    if m == "sunmd5": return range(12, 14)
    return range(0)


def concretize(ctx, behs, enabled, scan=False, phrase_len=None):
    """Turn abstract behaviours into a harness script.  Returns the command list."""
    rng = ctx.rng
    cmds = []
    pre = ["obj 7 0 0"]
    plans = []
    for beh in behs:
        ms = [m for m in enabled if m != "bigcrypt"]
        mA = rng.choice(ms)
        mB = rng.choice([m for m in ms if m != mA])
        mF = rng.choice([m for m in ms if METHFAIL.get(m)])
        n1 = phrase_len or rng.choice((1, 5, 8, 9, 20, 73, 130))
        p1 = gen.rand_phrase(rng, n1)
        p2 = gen.rand_phrase(rng, max(1, n1 - 1) if n1 > 1 else 2)
        sA, sB = cheap_setting(mA, rng), cheap_setting(mB, rng)
        bad = sA[:len(sA) // 2] + rng.choice(":;*!\\ \x7f\x80\xff\n") + sA[len(sA) // 2:]
        plans.append(dict(p1=p1, p2=p2, sA=sA, sB=sB, bad=bad, mf=METHFAIL[mF], mA=mA))
        pre.append("crypt_rn 7 %s %s %d" % (hx(p1), hx(sA), SIZEOF))
    evs = ctx.run_xcv(pre)
    hashes = [bytes(e["out"]) for e in evs if e.get("e") == "crypt_rn"]
    if len(hashes) != len(plans):
        raise Broken("pre-pass lost calls")
    if scan:
        cmds.append("scan 1")
    for beh, pl, hA in zip(behs, plans, hashes):
        cmds.append("reset")
        al = rng.randrange(16)
        # the model's initial state is a zero-filled object; junk comes from Scribble steps
        cmds.append("obj 0 %d 0" % al)
        cmds.append("obj 1 %d 0" % rng.randrange(16))
        cmds.append("hset 0 0 0")

        def req(r):
            if r == "okA": return pl["p1"], pl["sA"]
            if r == "okA2": return pl["p2"], pl["sA"]
            if r == "hashA": return pl["p1"], (hA if hA and hA[:1] != b"*" else pl["sA"])
            if r == "okB": return pl["p1"], pl["sB"]
            if r == "badchar": return pl["p1"], pl["bad"].encode("latin-1")
            if r == "unknown": return pl["p1"], rng.choice(("$9$abc", "$", "!x", "$2$", "%%", "$md", "$sha"))
            if r == "star0": return pl["p1"], rng.choice(("*0", "*0abc"))
            if r == "star1": return pl["p1"], rng.choice(("*1", "*", "*x"))
            if r == "methfail": return pl["p1"], pl["mf"]
            if r == "nullphrase": return None, pl["sA"]
            if r == "nullsetting": return pl["p1"], None
            if r == "longphrase": return gen.rand_phrase(rng, rng.choice((512, 513, 700))), pl["sA"]
            raise Broken("unknown request class " + r)
        oid = {"o1": 0, "o2": 1}
        for st in beh:
            fn = st["fn"]
            if fn in ("crypt_rn", "crypt_r", "crypt", "crypt_ra", "crypt_ra_fail"):
                p, s = req(st["r"])
                if fn == "crypt_rn":
                    sz = {"neg": rng.choice((-1, -32768, -2147483648)), "0": 0, "1": 1, "2": 2,
                          "small": rng.choice((3, 4, 13, 383, 384, 385, 32767)), "sizeof": SIZEOF,
                          "big": rng.choice((SIZEOF + 1, 2147483647))}[st["sz"]]
                    cmds.append("crypt_rn %d %s %s %d" % (oid[st["o"]], hx(p), hx(s), sz))
                elif fn == "crypt_r":
                    cmds.append("%s %d %s %s" % (rng.choice(("crypt_r", "xcrypt_r")), oid[st["o"]], hx(p), hx(s)))
                elif fn == "crypt":
                    cmds.append("%s - %s %s" % (rng.choice(("crypt", "fcrypt", "xcrypt")), hx(p), hx(s)))
                else:
                    if fn == "crypt_ra_fail":
                        cmds.append("fault 1")
                    cmds.append("crypt_ra 0 %s %s" % (hx(p), hx(s)))
            elif fn == "app_set":
                kind, size = st["r"], st["sz"]
                alloc = 0 if kind == "null" else (rng.choice((1, 100, 4000, 32767)) if kind == "small" else SIZEOF)
                rec = {"neg": rng.choice((-1, -70000)), "zero": 0, "small": 0, "exact": SIZEOF, "larger": 40000}[size]
                if size == "small":
                    rec = rng.randrange(1, max(2, min(alloc, SIZEOF - 1) + 1)) if alloc else rng.choice((1, 500))
                if size == "larger":
                    alloc = 40000
                cmds.append("hset 0 %d %d" % (alloc, rec))
            elif fn == "app_free":
                cmds.append("hfree 0")
            elif fn == "scribble":
                cmds.append("scribble %d all %d" % (oid[st["o"]], rng.randrange(1, 50)))
            elif fn == "gensalt":
                cmds.append("gensalt %s 0 - 0" % hx("$1$" if st["r"] == "ok" else "$9$"))
            elif fn == "setkey_r":
                cmds.append("setkey_r %d %s 0" % (oid[st["o"]], "0123456789abcdef"))
            elif fn == "encrypt_r":
                cmds.append("encrypt_r %d %s 0 0" % (oid[st["o"]], "1122334455667788"))
            elif fn == "setkey":
                cmds.append("setkey - fedcba9876543210 0")
            elif fn == "encrypt":
                cmds.append("encrypt - 1122334455667788 0 0")
        cmds.append("hfree 0")
    return cmds


def judge(ctx, events, tag, cfgev=None):
    """Annotate, validate against TraceXCrypt, record violations.  Returns verdict."""
    cfgev = cfgev or config_event(ctx)
    if len(events) > 30000 and not any(e.get(k) for e in events for k in ("hprev", "bprev", "yprev")):
        return judge_chunked(ctx, events, tag, cfgev)
    evs = [cfgev] + events
    # shift: annotate works on 1-based positions in the final list
    annotate(evs)
    v = ctx.validate_trace(evs, tag=tag)
    if os.environ.get("XCV_DEBUG"):
        for x in v["div"][:200]:
            ev = evs[x["l"] - 1]
            print("DIV", x["d"], compact(ev).get("s"), ev.get("pl"), ev.get("errno"), compact(ev).get("out"), ev.get("size"))
    for x in v["viol"]:
        ev = evs[x["l"] - 1]
        ctx.violation(x["p"], "%s failed at call %d (%s)" % (x["n"], x["l"], ev.get("e")), compact(ev, evs))
    return v


def judge_chunked(ctx, events, tag, cfgev, size=20000):
    """large traces: validated in parallel pieces (relations between events are kept within a piece)"""
    pieces, cur = [], []
    for e in events:
        cur.append(e)
        if len(cur) >= size and e.get("e") in ("Reset",) or len(cur) >= size * 2:
            pieces.append(cur); cur = []
        elif len(cur) >= size and "ph" in e and not e.get("kprev_keep"):
            pieces.append(cur); cur = []
    if cur:
        pieces.append(cur)
    chunks = []
    for pc in pieces:
        # each piece restarts from unknown object states: re-create the objects it uses is not possible, so the
        # first call on each object in a piece is preceded by a synthetic scribble (unknown contents)
        seen = set()
        out = [cfgev]
        for e in pc:
            if "o" in e and "ph" in e and e["o"] not in seen:
                seen.add(e["o"])
                out.append({"e": "obj", "o": e["o"], "al": 0, "fill": 0 if (e.get("prezero") and e.get("szero")) else 1})
            elif e.get("e") == "obj":
                seen.add(e["o"])
            out.append(e)
        for e in out:
            e.pop("kprev", None)
        annotate(out)
        chunks.append(out)
    vs = ctx.validate_many(chunks, "TraceXCrypt.tla", "TraceXCrypt.cfg", tag, par=8)
    tot = {"viol": [], "div": [], "cnt": {"calls": 0, "ok": 0, "failed": 0, "faulted": 0}, "tlc": {"distinct": 0, "generated": 0}}
    for v, ch in zip(vs, chunks):
        for x in v["viol"]:
            ev = ch[x["l"] - 1]
            ctx.violation(x["p"], "%s failed at call %d (%s)" % (x["n"], x["l"], ev.get("e")), compact(ev))
        for k in tot["cnt"]:
            tot["cnt"][k] += v["cnt"][k]
        for n, c in v["cnt"].get("ant", {}).items():
            tot.setdefault("ant", {})[n] = tot.get("ant", {}).get(n, 0) + c
        tot["div"] += v["div"]
        tot["tlc"]["distinct"] += v["tlc"].get("distinct", 0)
        tot["tlc"]["generated"] += v["tlc"].get("generated", 0)
    return tot


def compact(ev, evs=None):
    c = {k: v for k, v in ev.items() if k not in ("led",)}
    for k in ("s", "out", "prefix", "rb", "res", "buf", "ent"):
        if isinstance(c.get(k), list):
            c[k] = bytes(c[k]).decode("latin-1")
    return c


def samples_from(events, n=3):
    out = []
    for ev in events:
        if ev.get("e") in ("crypt_rn", "crypt_r", "crypt", "crypt_ra") and len(out) < n:
            out.append(compact(ev))
    return out


REQUIRED_ANTS = {
    "C01": ["RoundTrip"], "C02": ["Released"], "C03": ["Distinct", "FalseAcceptProbe", "NoFalseAccept"], "C04": ["UninitDependence"],
    "C05": ["FailClosed", "FailClosedStaleErrno", "ShortSizes", "KdfParams"], "C06": ["Shape"], "C07": ["Result", "ResultNonzeroErrno", "UninitDependence", "SameOutcome"],
    "C08": ["AsIfAlone"], "C09": ["Wiped"], "C14": ["Handle", "Grow"], "C15": ["Balanced"], "C20": ["Result", "FailClosed"],
    "C19": ["Result", "Released", "UninitDependence", "FailClosed"],
}


def mc_coverage(ctx, st, tr, verdicts, events, extra=None):
    cov = {"states": st, "transitions": tr,
           "traces_validated_against_impl": sum(1 for e in events if e.get("e") == "Reset") or 1,
           "samples": samples_from(events),
           "calls_judged": sum(v["cnt"]["calls"] for v in verdicts),
           "calls_ok": sum(v["cnt"]["ok"] for v in verdicts),
           "calls_failed": sum(v["cnt"]["failed"] for v in verdicts),
           "calls_with_injected_fault": sum(v["cnt"]["faulted"] for v in verdicts),
           "model_divergences": sum(len(v["div"]) for v in verdicts),
           "calls_entered_with_nonzero_errno": sum(1 for e in events if e.get("ein")),
           "tlc_runs": ctx.tlc_runs}
    # vacuity guard: how often the antecedent of each predicate held; the property's own predicates must have been exercised
    ants = {}
    for v in verdicts:
        for n, c in (v.get("ant") or v["cnt"].get("ant") or {}).items():
            ants[n] = ants.get(n, 0) + c
    if ants:
        cov["predicate_antecedent_held"] = ants
        missing = [n for n in REQUIRED_ANTS.get(ctx.prop, []) if not ants.get(n)]
        if missing:
            raise Broken("vacuous run: the antecedent of %s never held in the judged calls" % missing)
    cov.update(extra or {})
    return cov


ASSUME_COMMON = [
    "Settings.tla transcribes the parsers faithfully (gated by zero model divergences on the unchanged tree)",
    "harness projection (harness/xcv.c) observes the C state correctly",
    "abstract request/size classes are represented by seeded concrete values, not all concrete values",
]


# ----------------------------------------------------------------------------- C05
@prop("C05")
def c05(ctx):
    quick = ctx.tier == "quick"
    st, tr = model_check(ctx, ["XCryptMC_obj.cfg", "XCryptMC_heap.cfg"] + ([] if quick else ["XCryptMC_obj2.cfg"]))
    cfgev = config_event(ctx)
    behs = behaviours(ctx, 60 if quick else 600) + systematic_behaviours()
    events = ctx.run_xcv(concretize(ctx, behs, cfgev["E"]))
    v1 = judge(ctx, events, "walk", cfgev)
    classes = {(s["fn"], s["r"], s["sz"]) for b in behs for s in b if s["fn"] in ("crypt_rn", "crypt_r", "crypt", "crypt_ra")}
    # the input quantifier: every (selected) byte value at every position of a valid setting
    rng = ctx.rng
    cmds = ["obj 0 0 0"]
    forbidden = [1, 9, 10, 13, 31, 32, 33, 42, 58, 59, 92, 127, 128, 160, 255]
    allowed = [36, 46, 47, 48, 57, 65, 90, 97, 122, 95, 44, 61, 35, 126]
    if not quick:
        forbidden = list(range(1, 33)) + [33, 42, 58, 59, 92] + list(range(127, 256))
        allowed = [c for c in range(33, 127) if c not in (33, 42, 58, 59, 92)]
    ngrid = 0
    for m in cfgev["E"]:
        s = cheap_setting(m, rng).encode("latin-1")
        if m == "bsdicrypt":
            s = s + b"xy"
        ph = gen.rand_phrase(rng, rng.choice((3, 10)))
        cmds.append("crypt_rn 0 %s %s %d" % (hx(ph), hx(s), SIZEOF))
        # seed the object with a valid hash so a stale result is visible
        for i in range(len(s) + 1):
            # quick: printable bytes OUTSIDE every method's alphabet at every position (a field whose first or last
            # character escapes validation), the alphabet's own edge characters at every third
            bs = forbidden + (allowed if quick and i % 3 == 0 or not quick else allowed[:4] + [95, 44, 61, 35, 126, 45, 43, 64])
            for b in bs:
                if b in allowed and i in cost_span(m, s):
                    continue
                for mode in ("replace", "insert"):
                    if mode == "replace" and i == len(s):
                        continue
                    t = s[:i] + bytes([b]) + (s[i + 1:] if mode == "replace" else s[i:])
                    cmds.append("crypt_rn 0 %s %s %d" % (hx(ph), hx(t), SIZEOF))
                    ngrid += 1
            if i <= len(s):
                cmds.append("crypt_rn 0 %s %s %d" % (hx(ph), hx(s[:i]), SIZEOF))     # every truncation
                cmds.append("crypt_rn 0 %s %s %d" % (hx(ph), hx(s), SIZEOF))         # re-seed a hash
    for s in gen.INVALID_SETTINGS:
        for fn in ("crypt_rn 0 %s %s 32768", "crypt_r 0 %s %s", "crypt - %s %s", "crypt_ra 1 %s %s"):
            cmds.append(fn % (hx(b"pass"), hx(s)))
    nbound = 0
    for m in cfgev["E"]:
        for s in gen.grammar_boundaries(m, rng) + gen.late_bad_char_settings(m, rng) + gen.salt_length_bad_char(m, rng) + gen.noncanonical_salt_lengths(m, rng):
            cmds.append("crypt_rn 0 %s %s 32768" % (hx(b"pass"), hx(s)))
            cmds.append(rng.choice(("crypt_r 0 %s %s", "crypt - %s %s", "crypt_ra 1 %s %s")) % (hx(b"pass"), hx(s)))
            nbound += 1
    ev2 = ctx.run_xcv(cmds)
    v2 = judge(ctx, ev2, "grid", cfgev)
    # the other build option: without failure tokens crypt/crypt_r return NULL on failure
    st3, tr3 = model_check(ctx, ["XCryptMC_noft.cfg"])
    ctx.build("noft")
    cfg3 = config_event(ctx, "noft")
    ev3 = ctx.run_xcv(concretize(ctx, behs[: (25 if quick else 200)], cfg3["E"]), flavour="noft")
    v3 = judge(ctx, ev3, "noft", cfg3)
    st, tr = st + st3, tr + tr3
    cov = mc_coverage(ctx, st, tr, [v1, v2, v3], events + ev2 + ev3,
                      {"behaviours_replayed": len(behs), "byte_grid_points": ngrid, "grammar_boundary_settings": nbound,
                       "abstract_call_classes_replayed": len(classes),
                       "abstract_call_classes_in_model": len(REQS) * len(SIZES) + 3 * len(REQS),
                       "prior_states_per_class": ["fresh", "holding a success", "holding a failure", "scribbled"],
                       "predicates": ["FailClosed", "NoStale", "Token", "ShortSizes"]})
    return "model_checking", cov, ASSUME_COMMON


SECONDARY = {"Grow": ["C09"], "Shape": ["C01"]}


def attribute(ctx):
    """secondary attributions of predicates to properties"""
    extra = []
    for (p, what, payload) in ctx.violations:
        n = what.split(" ")[0]
        for q in SECONDARY.get(n, []):
            extra.append((q, what, payload))
    ctx.violations.extend(extra)


def crashes_as(ctx, prop, why):
    """a hashing call that never returned (Fault event inside the library) while the same request returns elsewhere
    in the run is also a violation of `prop`: the outcome depended on what differed between the two calls"""
    for (p, what, payload) in list(ctx.violations):
        if p == "C04" and what.startswith("Fault") and str(payload.get("cmd", "")).split(" ")[0] in \
                ("crypt_rn", "crypt_r", "xcrypt_r", "crypt", "fcrypt", "xcrypt", "crypt_ra", "crypt_via_gensalt"):
            ctx.violations.append((prop, "%s: %s" % (why, what), payload))


def noise_cmds(rng, enabled):
    """calls that must not influence later results: other methods, failures, DES API, gensalt"""
    m = rng.choice([x for x in enabled if x != "bigcrypt"])
    return rng.choice([
        "crypt_rn 1 %s %s %d" % (hx(gen.rand_phrase(rng, 6)), hx(cheap_setting(m, rng)), SIZEOF),
        "crypt - %s %s" % (hx(gen.rand_phrase(rng, 9)), hx(cheap_setting(m, rng))),
        "crypt - %s %s" % (hx(b"x"), hx("$9$bad")),
        "crypt_rn 1 %s %s %d" % (hx(b"x"), hx("*0"), SIZEOF),
        "setkey - 0123456789abcdef 0",
        "encrypt - 0011223344556677 0 0",
        "setkey_r 1 fedcba9876543210 0",
        "encrypt_r 1 0011223344556677 1 0",
        "gensalt %s 0 - 0" % hx(gen.PREFIX[m]),
        "gensalt_ra %s 0 - 0" % hx("$2b$"),
        "scribble 1 all %d" % rng.randrange(1, 60),
    ])


# ----------------------------------------------------------------------------- C07
@prop("C07")
def c07(ctx):
    quick = ctx.tier == "quick"
    st, tr = model_check(ctx, ["XCryptMC_obj.cfg"] + ([] if quick else ["XCryptMC_obj2.cfg"]))
    cfgev = config_event(ctx)
    rng = ctx.rng
    behs = behaviours(ctx, 40 if quick else 400) + systematic_behaviours()
    events = ctx.run_xcv(concretize(ctx, behs, cfgev["E"]))
    cmds = ["reset", "obj 1 5 2", "hset 0 0 0", "hset 1 0 0"]
    nreq = 0
    cmds.append("obj 0 0 0")
    # a refused setting asked for twice in a row after each method's successful call (a method lookup remembered between calls)
    for m in cfgev["E"]:
        for u in ("$9$bad", "$zz$" + gen.salt(rng, 8), "$sha2$abc", "$", "$$", "*0", "$2c$04$" + gen.salt(rng, 22, gen.BF64), "$7x" + gen.salt(rng, 20),
                  "$Y$j65$" + gen.salt(rng, 8), "\x7fab"):
            cmds.append("crypt_rn 0 %s %s 32768" % (hx(b"first"), hx(cheap_setting(m, rng))))
            for fnc in rng.sample(("crypt_rn 0 %s %s 32768", "crypt_r 0 %s %s", "crypt - %s %s", "crypt_ra 1 %s %s", "crypt_rn 1 %s %s 32768"), 3):
                cmds.append(fnc % (hx(b"pw"), hx(u.encode("latin-1"))))
    for m in cfgev["E"]:
        for s in [cheap_setting(m, rng) for rep in range(1 if quick else 3)] + gen.zero_settings(m, rng):
            for ph in (gen.rand_phrase(rng, rng.choice((1, 7))), gen.rand_phrase(rng, rng.choice((9, 20, 80))),
                       gen.rand_phrase(rng, rng.choice((129, 200, 256, 257, 300, 400, 511)))):
                nreq += 1
                aligns = list(range(16))
                rng.shuffle(aligns)
                for al in (aligns[:6] if quick else aligns):
                    fill = rng.choice((0, 1, 2, 3))
                    cmds.append("obj 0 %d %d" % (al, fill))
                    cmds.append("stage %d" % rng.randrange(2))        # arguments passed from the object's own input/setting fields or not
                    fnc = rng.choice(("crypt_rn 0 %s %s 32768", "crypt_r 0 %s %s", "xcrypt_r 0 %s %s"))
                    cmds.append(fnc % (hx(ph), hx(s)))
                    cmds.append(noise_cmds(rng, cfgev["E"]))
                    if rng.random() < 0.5:       # previous-call residue instead of a fresh fill
                        cmds.append("crypt_rn 0 %s %s 32768" % (hx(ph), hx(s)))
                for fnc in ("crypt - %s %s", "fcrypt - %s %s", "xcrypt - %s %s", "crypt_ra 0 %s %s", "crypt_ra 1 %s %s"):
                    cmds.append(noise_cmds(rng, cfgev["E"]))
                    cmds.append(fnc % (hx(ph), hx(s)))
    cmds.append("stage 0")
    # crypt_gensalt's static result handed straight to crypt, compared with a copied setting
    for m in cfgev["E"]:
        if m in ("bcrypt_x",):
            continue
        cnt = {"yescrypt": 1, "gost_yescrypt": 1, "scrypt": 6, "bcrypt": 4, "bcrypt_a": 4, "bcrypt_y": 4,
               "sha512crypt": 1000, "sha256crypt": 1000, "sha1crypt": 30, "sunmd5": 1, "bsdicrypt": 1}.get(m, 0)
        if m == "scrypt" and quick:
            continue
        rb = bytes(rng.randrange(256) for _ in range(32))
        ph = gen.rand_phrase(rng, 10)
        cmds.append("crypt_via_gensalt %s %s %d %s" % (hx(ph), hx(gen.PREFIX[m]), cnt, rb.hex()))
    ev2 = ctx.run_xcv(cmds)
    # the settings produced by crypt_gensalt, replayed through crypt_rn from a copy
    extra = ["obj 0 0 0"]
    for e in ev2:
        if e.get("via") == "gensalt" and not e["snull"]:
            if bytes(e["s"]).startswith(b"$md5") :
                continue   # sunmd5's generated rounds are >= 32768+4096 MD5 rounds: fine, but once is enough
            extra.append("crypt_rn 0 %s %s 32768" % (e["ph"] if e["ph"] else "=", hx(bytes(e["s"]))))
    ev3 = ctx.run_xcv(extra)
    v1 = judge(ctx, events, "walk", cfgev)
    v2 = judge(ctx, ev2 + ev3, "purity", cfgev)
    # the executions of the repository's own known-answer tests (all four entry points per vector), recorded
    # through the LD_PRELOAD shim against the fresh library and judged by the same trace specification
    ev4, ran = recorded_repo_tests(ctx, KA_CHEAP if quick else KA_ALL)
    v3 = judge(ctx, ev4, "repotests", cfgev) if ev4 else None
    attribute(ctx)
    crashes_as(ctx, "C07", "the call crashed on this object/history while the same request returns on others")
    cov = mc_coverage(ctx, st, tr, [v1, v2] + ([v3] if v3 else []), events + ev2 + ev3,
                      {"behaviours_replayed": len(behs), "requests_through_all_entry_points": nreq, "repository_tests_recorded": ran,
                       "predicates": ["Result (same request => same string, across entry points/history/alignment/fill)"]})
    return "model_checking", cov, ASSUME_COMMON


# ----------------------------------------------------------------------------- C09
@prop("C09")
def c09(ctx):
    quick = ctx.tier == "quick"
    st, tr = model_check(ctx, ["XCryptMC_obj.cfg", "XCryptMC_heap.cfg"])
    cfgev = config_event(ctx)
    rng = ctx.rng
    behs = behaviours(ctx, 30 if quick else 300) + systematic_behaviours()
    events = ctx.run_xcv(concretize(ctx, behs, cfgev["E"], scan=True, phrase_len=None))
    v = [judge(ctx, events, "walk", cfgev)]
    allev = list(events)

    def script():
        cmds = ["scan 1", "hset 0 0 0"]
        lens = (8, 9, 16, 40, 64, 65, 128, 200, 511) if quick else (8, 9, 15, 16, 17, 31, 32, 33, 55, 56, 63, 64, 65,
                                                                      72, 73, 111, 112, 127, 128, 129, 200, 255, 256, 400, 511)
        for m in cfgev["E"]:
            for n in lens:
                ph = gen.rand_phrase(rng, n)
                s = cheap_setting(m, rng)
                fill = rng.choice((1, 2))
                cmds.append("obj 0 %d %d" % (rng.randrange(16), fill))
                cmds.append("crypt_rn 0 %s %s 32768" % (hx(ph), hx(s)))
                cmds.append("obj 0 %d %d" % (rng.randrange(16), fill))
                cmds.append("crypt_r 0 %s %s" % (hx(ph), hx(s)))
                if n in (8, 64, 200):
                    cmds.append("crypt - %s %s" % (hx(ph), hx(s)))
                    cmds.append("crypt_ra 0 %s %s" % (hx(ph), hx(s)))
                    # every kind of failing call, on a dirty object
                    bad = s[:len(s) // 2] + ":" + s[len(s) // 2:]
                    for t, sz in ((bad, SIZEOF), ("$9$unknown", SIZEOF), (METHFAIL.get(m) or "*0", SIZEOF),
                                  (s, 100), (s, 0), (s, -1)):
                        cmds.append("obj 0 %d %d" % (rng.randrange(16), fill))
                        cmds.append("crypt_rn 0 %s %s %d" % (hx(ph), hx(t), sz))
                    cmds.append("obj 0 0 %d" % fill)
                    cmds.append("crypt_rn 0 %s %s 32768" % (hx(gen.rand_phrase(rng, 600)), hx(s)))
            # an undersized crypt_ra buffer holding secrets must be erased before it is reallocated
            cmds.append("hset 1 %d %d" % (rng.choice((100, 5000, 32767)), rng.choice((50, 100))))
            cmds.append("crypt_ra 1 %s %s" % (hx(gen.rand_phrase(rng, 12)), hx(cheap_setting(m, rng))))
            cmds.append("hfree 1")
        return cmds
    ev2 = ctx.run_xcv(script())
    v.append(judge(ctx, ev2, "scan", cfgev))
    allev += ev2
    # the stack region the call used, in a build without compiler-introduced spill copies
    ctx.build("O0")

    def stack_script():
        cmds = ["scan 1", "stack 1", "hset 0 0 0"]
        for m in cfgev["E"]:
            for n in ((8, 33, 64, 200) if quick else (8, 9, 16, 32, 33, 40, 63, 64, 65, 72, 73, 127, 128, 129, 200, 256, 511)):
                ph, s = gen.rand_phrase(rng, n), cheap_setting(m, rng)
                cmds.append("obj 0 %d 1" % rng.randrange(16))
                cmds.append("%s 0 %s %s" % (rng.choice(("crypt_rn", "crypt_r")), hx(ph), hx(s)))
            for s in gen.block_boundary_settings(m, rng):
                for n in (8, 40, 64):
                    cmds.append("obj 0 %d 1" % rng.randrange(16))
                    cmds.append("crypt_rn 0 %s %s 32768" % (hx(gen.rand_phrase(rng, n)), hx(s)))
            ph = gen.rand_phrase(rng, 24)
            cmds.append("crypt - %s %s" % (hx(ph), hx(cheap_setting(m, rng))))
            cmds.append("crypt_ra 0 %s %s" % (hx(ph), hx(cheap_setting(m, rng))))
            cmds.append("crypt_rn 0 %s %s 32768" % (hx(ph), hx(METHFAIL.get(m) or "$9$x")))
        return cmds
    ev3 = ctx.run_xcv(stack_script(), flavour="O0")
    v.append(judge(ctx, ev3, "stack", config_event(ctx, "O0")))
    allev += ev3
    # crypt_gensalt erases the random bytes it drew (successful and failing requests), heap and O0 stack
    gcmds = ["scan 1", "stack 1", "entropy 0 %d" % (ctx.seed % 100 + 3)]
    for m in cfgev["E"]:
        for fn in ("gensalt_rn", "gensalt", "gensalt_ra"):
            for cnt in (0, 3, 12, 32, 999999):
                gcmds.append(gs_cmd(fn, gen.PREFIX[m], cnt, None))
            for sz in (3, 12, 20, 30, 60):
                if fn == "gensalt_rn":
                    gcmds.append(gs_cmd(fn, gen.PREFIX[m], 0, None, "len", sz))
    ev4 = ctx.run_xcv(gcmds, flavour="O0")
    vg = judge_gs(ctx, ev4, "gs", config_event(ctx, "O0"))
    # the digest primitives erase their context when finalised (every algorithm, lengths around the block boundaries)
    pc = []
    for a in ("md4", "md5", "sha1", "sha256", "sha512", "gost256", "gost512"):
        for n in ((0, 1, 55, 56, 63, 64, 65, 119, 120, 128, 200) if quick else range(0, 300)):
            msg = bytes(rng.randrange(1, 256) for _ in range(n))
            pc.append("digest %s %s %s 0" % (a, msg.hex() or "=", ",".join(map(str, splits(rng, n, rng.choice(("one", "two")))))))
    for kl in (32, 33, 48, 64):
        pc.append("hmac gost256 %s %s" % (bytes(rng.randrange(1, 256) for _ in range(kl)).hex(), bytes(rng.randrange(256) for _ in range(rng.choice((1, 40, 64, 100)))).hex()))
    for kl in (0, 20, 64, 65, 130):
        pc.append("hmacs %s %s 7,1000" % (bytes(rng.randrange(1, 256) for _ in range(kl)).hex() or "=", bytes(rng.randrange(256) for _ in range(90)).hex()))
    vprim = judge_prim(ctx, run_prim(ctx, pc), "ctx", par=4, chunk=200)
    attribute(ctx)
    cov = mc_coverage(ctx, st, tr, v, allev,
                      {"behaviours_replayed": len(behs), "gensalt_calls_judged": sum(x["cnt"]["calls"] for x in vg),
                       "digest_contexts_checked": sum(x["cnt"]["digest"] + x["cnt"]["hmac"] for x in vprim),
                       "predicates": ["EntropyErased (gensalt wipes what it drew; no needle on the O0 stack)", "Wiped (scratch zero iff validated, else untouched)",
                                      "NoLeak (no passphrase needle in object, freed heap, unmapped regions, O0 stack)",
                                      "Grow (undersized crypt_ra block erased before realloc)"],
                       "needle_encodings": ["raw", "<<1", "^0x36", "^0x5c", "UCS-2LE", "bswap32", "bswap64"]})
    return "model_checking", cov, ASSUME_COMMON + ["stack residue judged on the -O0 build only (the property excludes spill copies)"]


# ----------------------------------------------------------------------------- C14
@prop("C14")
def c14(ctx):
    quick = ctx.tier == "quick"
    st, tr = model_check(ctx, ["XCryptMC_heap.cfg"])
    cfgev = config_event(ctx)
    rng = ctx.rng
    behs = [b for b in behaviours(ctx, 100 if quick else 1000)
            if sum(1 for x in b if x["fn"].startswith(("crypt_ra", "app_"))) >= 4]
    events = ctx.run_xcv(concretize(ctx, behs, cfgev["E"]))
    v1 = judge(ctx, events, "walk", cfgev)
    # systematic: every initial handle state x request kinds x sequences of three calls
    inits = [(0, 0), (0, -1), (0, 40000), (0, 5), (SIZEOF, SIZEOF), (40000, 40000), (40000, SIZEOF), (100, 100), (100, 50),
             (SIZEOF, 100), (SIZEOF, 0), (SIZEOF, -7), (1, 1), (SIZEOF - 1, SIZEOF - 1), (32767, 1)]
    ms = [m for m in cfgev["E"] if m != "bigcrypt"]
    cmds = []
    nseq = 0
    for (alloc, rec) in inits:
        for seq in range(3 if quick else 12):
            cmds.append("reset")
            cmds.append("ramode %d" % (seq % 2))      # the allocator moves the block / resizes it in place when it can
            cmds.append("hset 0 %d %d" % (alloc, rec))
            for step in range(3):
                m = rng.choice(ms)
                kind = rng.choice(("ok", "ok", "bad", "methfail", "null", "long"))
                ph, s = gen.rand_phrase(rng, 8), cheap_setting(m, rng)
                if kind == "bad": s = "$9$" + s
                if kind == "methfail": s = METHFAIL.get(m) or "*0"
                if kind == "null": s = None
                if kind == "long": ph = gen.rand_phrase(rng, 512)
                cmds.append("crypt_ra 0 %s %s" % (hx(ph), hx(s)))
            cmds.append("hfree 0")
            nseq += 1
    cmds.append("ramode 0")
    for m in cfgev["E"]:
        for nrb in ("-1", "-2147483648", "0", "1"):       # every early exit of crypt_gensalt_ra frees what it allocated
            cmds.append("gensalt_ra %s 0 %s %s" % (hx(gen.PREFIX[m]) if gen.PREFIX[m] else "=", bytes(rng.randrange(256) for _ in range(16)).hex(), nrb))
        for cnt, pfx in ((0, gen.PREFIX[m]), (0, "$9$"), (99, gen.PREFIX[m])):
            cmds.append("gensalt_ra %s %d - 0" % (hx(pfx) if pfx else "=", cnt))
            cmds.append("gensalt_ra %s %d %s len" % (hx(pfx) if pfx else "=", cnt, bytes(rng.randrange(256) for _ in range(2)).hex()))
    # crypt_gensalt_ra's protocol holds whatever its allocator requests answer: every request of the call fails in turn
    ngf = 0
    for m in cfgev["E"][: (4 if quick else 99)]:
        for k in (1, 2, 3):
            cmds += ["fault %d" % k, "gensalt_ra %s 0 - 0" % (hx(gen.PREFIX[m]) if gen.PREFIX[m] else "="),
                     "fault %d" % k, "gensalt_ra %s 0 %s len" % (hx(gen.PREFIX[m]) if gen.PREFIX[m] else "=", bytes(rng.randrange(256) for _ in range(32)).hex())]
            ngf += 2
    ev2 = ctx.run_xcv(cmds)
    v2 = judge(ctx, ev2, "seq", cfgev)
    for (p_, what, payload) in list(ctx.violations):
        if p_ == "C15" and what.startswith("GensaltRA"):
            ctx.violations.append(("C14", what + " (allocator request failed)", payload))
    attribute(ctx)
    cov = mc_coverage(ctx, st, tr, [v1, v2], events + ev2,
                      {"behaviours_replayed": len(behs), "systematic_sequences": nseq, "gensalt_ra_calls_with_failing_allocator": ngf,
                       "predicates": ["Handle", "Grow", "GensaltRA", "OneOwner/NoDangling/SizeHonest on the model"]})
    return "model_checking", cov, ASSUME_COMMON + ["caller contract: a recorded size never exceeds the real allocation"]


# ----------------------------------------------------------------------------- C15
@prop("C15")
def c15(ctx):
    quick = ctx.tier == "quick"
    st, tr = model_check(ctx, ["XCryptMC_heap.cfg"])
    cfgev = config_event(ctx)
    rng = ctx.rng
    corpus = []
    for m in cfgev["E"]:
        for rep in range(1 if quick else 3):
            ph, s = gen.rand_phrase(rng, rng.choice((5, 12, 40))), cheap_setting(m, rng)
            if m in ("yescrypt", "gost_yescrypt") and rep == 1:
                s = s.replace("j65", "j95")          # N=2^12 r=8: 4 MiB
            for fn in ("crypt_rn 0 %s %s 32768", "crypt_r 0 %s %s", "crypt - %s %s", "crypt_ra 0 %s %s", "crypt_ra 1 %s %s"):
                corpus.append((fn, ph, s))
    # a region above the huge-page threshold (32 MiB, not a multiple of 2 MiB): MAP_HUGETLB attempt, then the plain retry
    corpus.append(("crypt_rn 0 %s %s 32768", b"hugepages", "$y$jC5$abcd"))
    if not quick:
        corpus.append(("crypt_ra 0 %s %s", b"hugepages", "$gy$jC5$abcd"))
        corpus.append(("crypt_r 0 %s %s", b"hugepages", "$7$C6..../....abcd"))
    for m in cfgev["E"]:
        corpus.append(("gensalt_ra %s 0 - 0", None, gen.PREFIX[m]))
    # pass 1: fault-free, count the requests each call makes
    cmds = ["obj 0 0 1", "hset 0 0 0", "hset 1 100 60"]
    for (fn, ph, s) in corpus:
        if ph is None:
            cmds.append(fn % (hx(s) if s else "="))
        else:
            if fn.startswith("crypt_ra 1"):
                cmds.append("hset 1 100 60")
            if fn.startswith("crypt_ra 0"):
                cmds.append("hset 0 0 0")
            cmds.append(fn % (hx(ph), hx(s)))
    ev1 = ctx.run_xcv(cmds)
    calls = [e for e in ev1 if e.get("e") in ("crypt_rn", "crypt_r", "crypt", "crypt_ra", "gensalt_ra")]
    if len(calls) != len(corpus):
        raise Broken("fault-free pass lost calls (%d of %d)" % (len(calls), len(corpus)))
    # pass 2: every position k fails in turn (and every pair in thorough), then one more normal call
    cmds = ["obj 0 0 1"]
    points = 0
    for (fn, ph, s), e in zip(corpus, calls):
        n = e["nreq"]
        sched = [(k, 0) for k in range(1, n + 1)]
        if not quick:
            sched += [(a, b) for a in range(1, n + 1) for b in range(a + 1, n + 2)]
        elif n >= 2:
            sched += [(1, 2), (n - 1, n)]
        for (a, b) in sched:
            pre = []
            if fn.startswith("crypt_ra 1"): pre = ["hset 1 100 60"]
            if fn.startswith("crypt_ra 0"): pre = ["hset 0 0 0"]
            line = (fn % (hx(s) if s else "=")) if ph is None else fn % (hx(ph), hx(s))
            cmds += pre + ["fault %d %d" % (a, b), line, line]     # the faulty call, then the same call again
            points += 1
    ev2 = ctx.run_xcv(cmds)
    # pass 3: the environment in which MAP_HUGETLB requests are granted (the sandbox has no huge pages): regions above
    # the 32 MiB threshold, sizes that are and are not multiples of 2 MiB, alone and with each request failing in turn
    cmds = ["obj 0 0 1", "hugeok 1"]
    big = [("crypt_rn 0 %s %s 32768", b"hugepages", "$y$jC5$abcd"), ("crypt_r 0 %s %s", b"hugepages", "$y$jD5$abcd"),
           ("crypt_rn 0 %s %s 32768", b"hugepages", "$7$C6..../....abcd"), ("crypt_ra 0 %s %s", b"hugepages", "$gy$jC5$abcd")]
    for (fn, ph, s) in (big[:2] if quick else big):
        line = fn % (hx(ph), hx(s))
        pre = ["hset 0 0 0"] if fn.startswith("crypt_ra") else []
        cmds += pre + [line]
        for k in (1, 2, 3):
            cmds += pre + ["fault %d" % k, line, line]
    cmds.append("hugeok 0")
    ev3 = ctx.run_xcv(cmds)
    nhuge = sum(1 for e in ev3 if any(l.get("op") == "H" and not l.get("failed") for l in e.get("led", [])))
    if not nhuge:
        raise Broken("no huge-page mapping was granted in the huge-page pass")
    v1 = judge(ctx, ev1, "nofault", cfgev)
    v2 = judge(ctx, ev2 + [{"e": "Reset"}] + ev3, "faults", cfgev)
    attribute(ctx)
    # "without crashing": a call that dies under an injected allocator/mapping failure
    for (p_, what, payload) in list(ctx.violations):
        if p_ == "C04" and what.startswith("Fault"):
            ctx.violations.append(("C15", "the call crashed under an allocation/mapping failure: " + what, payload))
    nf = sum(1 for e in ev2 if any(l.get("failed") for l in e.get("led", [])))
    cov = {"evaluations": points, "distinct_nontrivial": nf,
           "rule": "for every call of the corpus (all methods x crypt_rn/crypt_r/crypt/crypt_ra from NULL and from an "
                   "undersized block, crypt_gensalt_ra) the fault-free run counts the malloc/realloc/mmap/munmap requests n; "
                   "then request k fails for every k in 1..n (plus pairs), followed by the same call again without faults. "
                   "non-trivial = an injected failure was actually hit (ledger shows a failed request)",
           "samples": [compact(e) for e in ev2 if any(l.get("failed") for l in e.get("led", []))][:3],
           "exhaustive": True, "states": st, "transitions": tr, "tlc_runs": ctx.tlc_runs,
           "calls_with_a_granted_huge_page_mapping": nhuge,
           "model_divergences": len(v1["div"]) + len(v2["div"])}
    return "fault_enumeration", cov, ASSUME_COMMON + ["faults are injected at the libc allocator/mapping interface by symbol interposition"]


# ----------------------------------------------------------------------------- C04
def length_sweep(rng, enabled):
    """every total setting length around the limits of the 384-byte output field, for every method:
    the salt (sunmd5, scrypt) or the ignored tail after the salt is stretched one character at a time"""
    out = []
    for m in enabled:
        base = cheap_setting(m, rng)
        for L in list(range(300, 400)) + [511, 512, 1023]:
            if L <= len(base) + 1:
                continue
            if m == "sunmd5":
                variants = ["$md5$" + gen.salt(rng, L - 5), "$md5$rounds=1$" + gen.salt(rng, L - 14), "$md5$" + gen.salt(rng, L - 6) + "$"]
            elif m == "scrypt":
                variants = [base + gen.salt(rng, L - len(base)), base + "$" + gen.salt(rng, L - len(base) - 1)]
            elif m in ("yescrypt", "gost_yescrypt", "sha512crypt", "sha256crypt", "md5crypt", "sha1crypt"):
                variants = [base + "$" + gen.salt(rng, L - len(base) - 1), base + gen.salt(rng, L - len(base))]
            else:
                variants = [base + gen.salt(rng, L - len(base))]
            out += variants
    return out


def fuzz_script(ctx, rng, enabled, n):
    cmds = ["hset 0 0 0", "obj 0 %d 1" % rng.randrange(16)]
    if "yescrypt" in enabled:
        for s in gen.yescrypt_malformed_params(rng, full=False):
            cmds.append("crypt_rn 0 %s %s 32768" % (hx(b"pw"), hx(s)))
    for s in length_sweep(rng, enabled):
        cmds.append("%s 0 %s %s" % (rng.choice(("crypt_rn", "crypt_r")), hx(gen.rand_phrase(rng, rng.choice((1, 9)))), hx(s)))
    for i in range(n):
        if i % 50 == 0:
            cmds.append("obj 0 %d %d" % (rng.randrange(16), rng.choice((0, 1, 2))))
        m = rng.choice(enabled)
        s = cheap_setting(m, rng).encode("latin-1")
        r = rng.random()
        if r < 0.25:
            pass
        elif r < 0.5:       # mutate outside the cost field with arbitrary bytes
            k = rng.randrange(1, 4)
            s = bytearray(s)
            for _ in range(k):
                pos = rng.randrange(len(s) + 1)
                b = rng.randrange(1, 256)
                if pos in cost_span(m, s) and 33 <= b < 127:
                    continue
                if rng.random() < 0.5 and pos < len(s):
                    s[pos] = b
                else:
                    s.insert(pos, b)
            s = bytes(s)
        elif r < 0.6:       # very long settings
            L = rng.choice((200, 339, 340, 383, 384, 400, 1000, 5000, 40000, 65536))
            s = s + bytes(rng.choice(gen.B64.encode()) for _ in range(L))
            if m == "sha1crypt":
                s = b"$sha1$3$" + bytes(rng.choice(gen.B64.encode()) for _ in range(rng.choice((64, 65, 100, 345, 346, 347, 400, 800, 33000))))
        elif r < 0.7:       # truncation
            s = s[:rng.randrange(len(s) + 1)]
        elif r < 0.8:
            s = bytes(rng.randrange(1, 256) for _ in range(rng.choice((1, 2, 3, 10, 60))))
        else:
            s = rng.choice(gen.INVALID_SETTINGS).encode("latin-1")
        ph = gen.rand_phrase(rng, rng.choice((0, 1, 8, 9, 72, 73, 128, 129, 255, 256, 510, 511, 512, 513, 600)))
        fnc = rng.choice(("crypt_rn", "crypt_rn", "crypt_r", "xcrypt_r", "crypt", "crypt_ra"))
        if fnc == "crypt_rn":
            sz = rng.choice((SIZEOF, SIZEOF, SIZEOF, 0, 1, 2, 3, -1, 383, 384, 32767, 2147483647, -2147483648))
            cmds.append("crypt_rn 0 %s %s %d" % (hx(ph), hx(s), sz))
        elif fnc in ("crypt_r", "xcrypt_r"):
            cmds.append("%s 0 %s %s" % (fnc, hx(ph), hx(s)))
        elif fnc == "crypt":
            cmds.append("crypt - %s %s" % (hx(ph), hx(s)))
        else:
            cmds.append("crypt_ra 0 %s %s" % (hx(ph), hx(s)))
    return cmds


@prop("C04")
def c04(ctx):
    quick = ctx.tier == "quick"
    st, tr = model_check(ctx, ["XCryptMC_obj.cfg"])
    cfgev = config_event(ctx)
    rng = ctx.rng
    n = 3000 if quick else 40000
    script = fuzz_script(ctx, rng, cfgev["E"], n)
    ev1 = ctx.run_xcv(script)
    v1 = judge(ctx, ev1, "fuzz", cfgev)
    # the same replay on a checked C semantics (ASan+UBSan): a report becomes a Fault event
    ctx.build("asan")
    # (under the sanitizers also: the edges of every method's setting grammar, where fixed-size decoders overflow by one)
    edge = ["obj 0 0 0"] + ["crypt_rn 0 %s %s 32768" % (hx(b"pw"), hx(s)) for m in cfgev["E"]
                            for s in gen.grammar_boundaries(m, rng) + gen.late_bad_char_settings(m, rng)[:6]
                            if not (m in ("bcrypt", "bcrypt_a", "bcrypt_x", "bcrypt_y") and s[4:6] == "10")]
    ev2 = ctx.run_xcv(edge + script[: (1500 if quick else 20000)], flavour="asan", env={"XCV_NO_RLIMIT": "1"}, timeout=1500)
    v2 = judge(ctx, ev2, "asan", config_event(ctx, "asan"))
    # the result never depends on what the object held before: zero-filled first, then junk fills
    un = []
    for m in cfgev["E"]:
        for n in ((0, 1, 8, 9, 64, 129, 257, 511) if quick else (0, 1, 7, 8, 9, 16, 17, 63, 64, 65, 72, 73, 128, 129, 255, 256, 257, 400, 511)):
            ph = gen.rand_phrase(rng, n)
            # (also settings whose salt decodes to zero bits or is empty: "zero anyway" shortcuts rely on zeroed scratch)
            for s in [cheap_setting(m, rng)] + (gen.zero_settings(m, rng) if n in (1, 9, 129) else []):
                for fill in (0, 1, 2, 3):
                    un.append("obj 0 %d %d" % (rng.randrange(16), fill))
                    # every other call passes phrase and setting from the object's own input/setting fields (<crypt.h>'s use of them)
                    un.append("stage %d" % (fill % 2))
                    un.append("%s 0 %s %s" % (rng.choice(("crypt_r", "crypt_rn")), hx(ph), hx(s)))
    un.append("stage 0")
    # legal settings that ask for gigabytes (r*p up to 2^30 is allowed), under a small address-space limit: a clean ENOMEM
    # or EINVAL, never a region sized by a wrapped product
    un += ["obj 0 0 0", "aslimit 768"]
    for s in ("$7$0/........0saltsalt", "$7$0....0/....saltsalt", "$7$0...0.....0saltsalt", "$7$0..0....0..saltsalt", "$7$I6..../....saltsalt",
              "$7$2/......../saltsalt", "$7$2..../..../saltsalt", "$y$jJ5$saltsalt", "$y$jFz1$saltsalt", "$gy$jJ5$saltsalt"):
        un.append("crypt_rn 0 %s %s 32768" % (hx(b"pw"), hx(s)))
    un.append("aslimit 0")
    ev4 = ctx.run_xcv(un)
    v4 = judge(ctx, ev4, "uninit", cfgev)
    # crypt_gensalt* under the sanitizers too: every prefix, boundary counts, sizes and byte counts (incl. negative)
    gs = ["entropy 0 5"]
    for pfx in GS_PREFIXES:
        for c in (0, 4, 99, 2 ** 64 - 1):
            for nr in (None, 0, 3, 16, 64, 256):
                rb = None if nr is None else bytes(rng.randrange(256) for _ in range(nr))
                for sz in (192, 30, 8, 3, 0, -1):
                    gs.append(gs_cmd("gensalt_rn", pfx, c, rb, "len", sz))
        gs.append(gs_cmd("gensalt_rn", pfx, 0, bytes(16), "-1", 192))
        gs.append(gs_cmd("gensalt", pfx, 0, None))
        gs.append(gs_cmd("gensalt_ra", pfx, 0, bytes(rng.randrange(256) for _ in range(20))))
    ev5 = ctx.run_xcv(gs[: (2500 if quick else 100000)], flavour="asan", env={"XCV_NO_RLIMIT": "1"}, timeout=1500)
    vgs = judge_gs(ctx, ev5, "asangs", config_event(ctx, "asan"))
    for (p_, what, payload) in list(ctx.violations):
        if p_ == "C13" and what.startswith(("Fault", "Local")):
            ctx.violations.append(("C04", "gensalt under ASan/UBSan: " + what, payload))
    behs = behaviours(ctx, 30 if quick else 200) + systematic_behaviours()
    ev3 = ctx.run_xcv(concretize(ctx, behs, cfgev["E"]), flavour="asan", env={"XCV_NO_RLIMIT": "1"}, timeout=1500)
    v3 = judge(ctx, ev3, "asanwalk", config_event(ctx, "asan"))
    attribute(ctx)
    cov = mc_coverage(ctx, st, tr, [v1, v2, v3, v4], ev1 + ev2 + ev3 + ev4,
                      {"explanation": "write confinement, bounds and crash-freedom are decided by the specification's footprints "
                                      "(TraceXCrypt C_Confined: application fields and red zones intact, result inside the output "
                                      "field and NUL-terminated, no static written by re-entrant calls) on every replayed call; "
                                      "inputs end at PROT_NONE pages so over-reads fault; the same replay under ASan+UBSan turns "
                                      "undefined behaviour into Fault events. UB/uninitialised reads are observed, not model-checked.",
                       "fuzz_calls": len(ev1), "asan_calls": len(ev2) + len(ev3)})
    cov["evaluations"] = len(ev1) + len(ev2) + len(ev3)
    cov["distinct_nontrivial"] = len({(tuple(e.get("s", [])), e.get("pl"), e.get("size")) for e in ev1 + ev2 + ev3 if "s" in e})
    return "other", cov, ASSUME_COMMON + ["sanitizer substrate (clang 14 ASan/UBSan) for UB; MSan not used (needs instrumented libc)"]


# ============================================================================= gensalt family
from vlib import annotate_gs

GS_COUNTS_ALL = [0, 1, 2, 3, 4, 5, 6, 7, 8, 10, 11, 12, 30, 31, 32, 33, 99, 100, 724, 725, 726, 999, 1000, 1001, 4999, 5000,
                 5001, 9999, 10000, 32767, 32768, 32769, 65536, 99999, 100000, 262143, 262144, 999999, 1000000,
                 16777214, 16777215, 16777216, 99999999, 100000000, 999999998, 999999999, 1000000000, 1000000001,
                 2147483647, 2147483648, 4294901758, 4294901759, 4294901760, 4294967294, 4294967295, 4294967296,
                 9999999999, 10000000000, 2 ** 40, 2 ** 63 - 1, 2 ** 63, 2 ** 64 - 2, 2 ** 64 - 1]
GS_PREFIXES = [gen.PREFIX[m] for m in gen.METHODS if gen.PREFIX[m]] + [
    "", None, "ab", "zz", "$9$", "$", "$2$", "$2z$", "$sha1$", "$md5$", "$md5,", "_ab", "*0", "a",
    "$6$saltsalt$" + "x" * 86, "$y$j9T$abcdefgh$" + "y" * 43, "$2b$05$" + "a" * 53, "abcdefghijklm", "$1$abc", "$3$$" + "0" * 32]
CHEAP_COUNT = {"yescrypt": [1, 2], "gost_yescrypt": [1], "scrypt": [6], "bcrypt": [4], "bcrypt_a": [4], "bcrypt_y": [4],
               "sha512crypt": [1000, 1001], "sha256crypt": [1000], "sha1crypt": [4, 40], "sunmd5": [0],
               "bsdicrypt": [1, 2], "md5crypt": [0], "nt": [0], "descrypt": [0], "bigcrypt": [0]}


def count_wraps():
    """counts that are a valid small count plus a multiple of 2^32 (or sit at the top of the 64-bit range): a generator
    that narrows count to 32 bits, or to a signed type, takes them for the small value"""
    out = []
    for v in (1, 4, 5, 6, 11, 12, 31, 1000, 5000, 7, 725):
        out += [v + 2 ** 32, v + 2 ** 33, v + 2 ** 63, 2 ** 64 - 2 ** 32 + v]
    return out + [2 ** 64 - 1, 2 ** 64 - 5, 2 ** 64 - 9, 2 ** 63, 2 ** 63 - 1, 2 ** 32 - 1, 2 ** 32, 2 ** 31, 2 ** 31 - 1]


# method tags no configuration recognises (wrong case, wrong terminator, unassigned, forbidden bytes)
REFUSED_TAGS = ("$9$", "$zz$", "$Y$", "$2c$", "$sha2$", "$7x", "*0", "$", "$$", "\x7fab", "$1x", "$GY$", "$MD5", "$SHA1")


def gs_cmd(fn, prefix, count, rb, nrbytes="len", size=192):
    return "%s %s %d %s %s %d" % (fn, "-" if prefix is None else (hx(prefix) if prefix else "="), count,
                                  "-" if rb is None else (rb.hex() if rb else "="), nrbytes, size)


def method_of_prefix(prefix, enabled, default="yescrypt"):
    if prefix is None:
        return default
    for m in gen.METHODS:
        if gen.PREFIX[m] and prefix.startswith(gen.PREFIX[m]) and m in enabled:
            return m
    if prefix == "" or (len(prefix) >= 2 and prefix[0] in gen.B64 and prefix[1] in gen.B64):
        return "bigcrypt" if "bigcrypt" in enabled else ("descrypt" if "descrypt" in enabled else None)
    return None


def judge_gs(ctx, events, tag, cfgev, par=8):
    """chunk by request prefix so that size chains stay together; validate in parallel"""
    annotate_gs(events)
    chunks = [events]
    if len(events) > 20000:
        # re-chunk: indexes are chunk-local, so annotate per chunk
        groups = {}
        for ev in events:
            k = (tuple(ev.get("prefix", [])), ev.get("prefixnull", 0)) if ev.get("e") in vlib.GS else None
            groups.setdefault(k, []).append(ev)
        chunks, cur = [], []
        for k, g in groups.items():
            cur.extend(g)
            if len(cur) > 12000:
                chunks.append(cur); cur = []
        if cur:
            chunks.append(cur)
        for ch in chunks:
            for ev in ch:
                for kk in ("gprev", "sprev", "s192", "fprev"):
                    if kk != "fprev":
                        ev.pop(kk, None)
            annotate_gs(ch)
    chunks = [[cfgev] + ch for ch in chunks]
    for ch in chunks:            # the config line shifts every index by one
        for ev in ch[1:]:
            for kk in ("gprev", "sprev", "s192", "fprev"):
                if ev.get(kk):
                    ev[kk] += 1
    vs = ctx.validate_many(chunks, "TraceGensalt.tla", "TraceGensalt.cfg", tag, par=par)
    for v, ch in zip(vs, chunks):
        if os.environ.get("XCV_DEBUG"):
            for x in v["div"][:60]:
                ev = ch[x["l"] - 1]
                print("DIV", x["d"], compact(ev).get("prefix"), ev.get("count"), ev.get("nrbytes"), ev.get("osize"), ev.get("errno"), compact(ev).get("res"))
        for x in v["viol"]:
            ev = ch[x["l"] - 1]
            ctx.violation(x["p"], "%s failed at call %d (%s)" % (x["n"], x["l"], ev.get("e")), compact(ev))
    return vs


def gs_coverage(ctx, vs, events, extra):
    # a crypt_gensalt* call that kills the process returned neither a setting nor its documented error: besides C13's
    # "never terminates the process" this breaks the clause of the property under check that says what the call returns
    if ctx.prop in ("C10", "C11", "C12"):
        for (p_, what, payload) in list(ctx.violations):
            if p_ == "C13" and what.startswith("Fault"):
                ctx.violations.append((ctx.prop, "the call crashed instead of returning a setting or an error: " + what, payload))
    cov = {"states": sum(v["tlc"].get("distinct", 0) for v in vs), "transitions": sum(v["tlc"].get("generated", 0) for v in vs),
           "traces_validated_against_impl": len(vs),
           "samples": [compact(e) for e in events if e.get("e") in vlib.GS][:3],
           "calls_judged": sum(v["cnt"]["calls"] for v in vs), "calls_ok": sum(v["cnt"]["ok"] for v in vs),
           "calls_failed": sum(v["cnt"]["failed"] for v in vs),
           "model_divergences": sum(len(v["div"]) for v in vs), "tlc_runs": ctx.tlc_runs[-6:]}
    ants = {}
    for v in vs:
        for n, c in (v["cnt"].get("ant") or {}).items():
            ants[n] = ants.get(n, 0) + c
    if ants:
        cov["predicate_antecedent_held"] = ants
        missing = [n for n in REQUIRED_ANTS_GS.get(ctx.prop, []) if not ants.get(n)]
        if missing:
            raise Broken("vacuous run: the antecedent of %s never held in the judged gensalt calls" % missing)
    cov.update(extra)
    return cov


REQUIRED_ANTS_GS = {"C10": ["Success", "Deterministic", "NonzeroErrno"], "C11": ["Success", "CostReject"],
                    "C12": ["Flip", "EntropyFresh", "AutoEntropy", "TooShort", "StdSalt"], "C13": ["Monotone", "Full", "SmallSize", "NonzeroErrno"]}
GS_ASSUME = ["Gensalt.tla/Settings.tla transcribe the documented behaviour (gated by zero model divergences on the unchanged tree)",
             "count, nrbytes and size values are the grids listed in coverage, not all 2^64 x 2^32 x 2^32 values"]


@prop("C10")
def c10(ctx):
    quick = ctx.tier == "quick"
    cfgev = config_event(ctx)
    rng = ctx.rng
    E = cfgev["E"]
    cmds = ["entropy 0 %d" % (ctx.seed % 200 + 1), "hset 0 0 0"]
    nrs = [None, 0, 1, 2, 3, 4, 5, 6, 7, 8, 9, 15, 16, 20, 32, 64, 65, 256] if quick else [None] + list(range(0, 25)) + [32, 33, 48, 63, 64, 65, 66, 100, 128, 255, 256]
    counts = [0, 1, 4, 5, 6, 11, 12, 31, 32, 1000, 5000, 99999, 16777215, 16777216, 999999999, 4294901759, 4294901760, 4294967295,
              2 ** 32, 2 ** 64 - 1] if quick else GS_COUNTS_ALL
    for pfx in GS_PREFIXES:
        for c in counts:
            for nr in (nrs if c in (0, 4, 6, 1000) or not quick else nrs[:1] + [16, 64]):
                rb = None if nr is None else bytes(rng.randrange(256) for _ in range(nr))
                if rb and c > 2 ** 31 and rng.random() < 0.7:
                    rb = b"\xff" * len(rb)                 # the extreme of the randomised cost windows
                for fn in ("gensalt_rn", "gensalt", "gensalt_ra") + (("gensalt_r", "xgensalt_r", "xgensalt") if nr == 16 else ()):
                    cmds.append(gs_cmd(fn, pfx, c, rb))
    # a prefix no method recognises, asked for three times in a row after each method's successful call (a method lookup
    # remembered between calls would answer the repeat with the previous method's generator)
    for m in E:
        for u in REFUSED_TAGS:
            rb = bytes(rng.randrange(256) for _ in range(32))
            cmds.append(gs_cmd("gensalt_rn", gen.PREFIX[m], 0, rb))
            for fn in rng.sample(("gensalt_rn", "gensalt", "gensalt_ra", "gensalt_r", "gensalt_rn"), 3):
                cmds.append(gs_cmd(fn, u, 0, rb))
    ev1 = ctx.run_xcv(cmds)
    # every generated setting with an affordable cost is hashed; the result must keep it literally
    follow = ["obj 0 0 0"]
    seen = set()
    for e in ev1:
        if e.get("e") in vlib.GS and e["ret"] != "null" and e["resk"] == "str":
            m = method_of_prefix(None if e["prefixnull"] else bytes(e["prefix"]).decode("latin-1"), E, default="yescrypt")
            if m and int(e["count"]) in CHEAP_COUNT.get(m, []) and (m != "yescrypt" or not e["prefixnull"] or True):
                s = bytes(e["res"])
                if e["prefixnull"] and int(e["count"]) == 0:
                    continue          # default yescrypt cost: 16 MiB each, done once below
                if s in seen or (m == "sunmd5" and len([x for x in seen if x.startswith(b"$md5")]) >= 3) \
                        or (m == "scrypt" and len([x for x in seen if x.startswith(b"$7$")]) >= 2):
                    continue
                seen.add(s)
                follow.append("crypt_rn 0 %s %s 32768" % (hx(gen.rand_phrase(rng, rng.choice((3, 9, 20)))), hx(s)))
    # ... and the most expensive setting each memory-hard method's generator emits (count 11: 1 GiB), once: a crypt-side
    # limit must not sit below what crypt_gensalt hands out
    topm = [m for m in (("yescrypt",) if quick else ("yescrypt", "gost_yescrypt", "scrypt")) if m in E]
    for e in ev1:
        if e.get("e") == "gensalt_rn" and e["ret"] != "null" and e["resk"] == "str" and not e["prefixnull"] and int(e["count"]) == 11 and e["rbnull"] == 0:
            m = method_of_prefix(bytes(e["prefix"]).decode("latin-1"), E, default="yescrypt")
            if m in topm and bytes(e["prefix"]).decode("latin-1") == gen.PREFIX[m]:
                topm.remove(m)
                follow.append("crypt_rn 0 %s %s 32768" % (hx(b"top-cost"), hx(bytes(e["res"]))))
    follow.append("crypt_via_gensalt %s - 0 -" % hx(b"default-prefix"))
    ev2 = ctx.run_xcv(follow, timeout=1800)
    for e in ev2:
        if e.get("e") in ("crypt_rn", "crypt"):
            e["gs"] = 1
    vs = judge_gs(ctx, ev1, "gs", cfgev)
    v2 = judge(ctx, ev2, "follow", cfgev)
    attribute(ctx)
    cov = gs_coverage(ctx, vs, ev1, {"generated_settings_hashed": len(follow) - 1, "prefixes": len(GS_PREFIXES),
                                     "counts": len(counts), "nrbytes_classes": len(nrs), "follow_up_calls": v2["cnt"]["calls"],
                                     "predicates": ["Safe", "Deterministic", "Where", "Literal"]})
    return "model_checking", cov, GS_ASSUME


@prop("C11")
def c11(ctx):
    quick = ctx.tier == "quick"
    cfgev = config_event(ctx)
    rng = ctx.rng
    counts = list(range(0, 41)) + [c for c in GS_COUNTS_ALL if c > 40]
    for k in range(1, 64):
        counts += [2 ** k - 1, 2 ** k, 2 ** k + 1]
    for k in range(1, 20):
        counts += [10 ** k - 1, 10 ** k, 10 ** k + 1]
    counts += [rng.randrange(2 ** 64) for _ in range(20 if quick else 400)] + [rng.randrange(2 ** 32) for _ in range(20 if quick else 400)]
    counts = sorted({c for c in counts if 0 <= c < 2 ** 64})
    if quick:
        counts = [c for i, c in enumerate(counts) if c <= 40 or i % 3 == 0 or c in (999, 1000, 1001, 999999999, 1000000000, 16777215, 16777216, 4294967295, 4294967296)]
    counts = sorted(set(counts) | set(count_wraps()))
    cmds = []
    prefixes = [gen.PREFIX[m] for m in gen.METHODS if gen.PREFIX[m]] + ["", None]
    for pfx in prefixes:
        for c in counts:
            for rep in range(1 if quick else 3):
                rb = bytes(rng.randrange(256) for _ in range(rng.choice((20, 24, 32, 64))))
                if rep == 0 and pfx in ("$sha1", "$md5"):
                    rb = bytes([255] * len(rb))       # the extreme of the randomised window
                cmds.append(gs_cmd("gensalt_rn", pfx, c, rb))
    ev1 = ctx.run_xcv(cmds)
    vs = judge_gs(ctx, ev1, "gs", cfgev)
    attribute(ctx)
    cov = gs_coverage(ctx, vs, ev1, {"counts": len(counts), "prefixes": len(prefixes), "predicates": ["Cost", "Accepts"]})
    return "model_checking", cov, GS_ASSUME


@prop("C12")
def c12(ctx):
    quick = ctx.tier == "quick"
    cfgev = config_event(ctx)
    rng = ctx.rng
    prefixes = [gen.PREFIX[m] for m in gen.METHODS if gen.PREFIX[m]] + ["", None]
    cmds = ["entropy 0 %d" % (ctx.seed % 200 + 1)]
    # salt-size laws over nrbytes 0..256
    for pfx in prefixes:
        for nr in (list(range(0, 70)) + [100, 127, 128, 129, 200, 254, 255, 256] if quick else range(0, 257)):
            rb = bytes(rng.randrange(256) for _ in range(nr))
            cmds.append(gs_cmd("gensalt_rn", pfx, 0, rb))
        for rep in range(3):
            cmds.append(gs_cmd(rng.choice(("gensalt_rn", "gensalt", "gensalt_ra")), pfx, 0, None))
        for nrb in (-1, -16, -2147483648, 1, 5, 300):          # with rbytes == NULL the count is ignored
            cmds.append(gs_cmd("gensalt_rn", pfx, 0, None, str(nrb)))
    ev1 = ctx.run_xcv(cmds)
    # every single bit of the supplied bytes flipped
    cmds2 = []
    flipmeta = []
    for pfx in prefixes:
        for nr in ((3, 8, 16, 20, 33, 64) if quick else (2, 3, 4, 6, 8, 9, 12, 15, 16, 17, 20, 21, 24, 32, 33, 48, 63, 64, 65, 70)):
            base = bytes(rng.randrange(256) for _ in range(nr))
            if nr == 16:
                # (not left to chance: bytes a C string routine stops at or a sign extension changes, at fixed places)
                base = bytes([0, base[1], 0x80, base[3], 0xff, 0, base[6], 0x01]) + base[8:13] + bytes([0, 0x7f, base[15]])
            cmds2.append(gs_cmd("gensalt_rn", pfx, 0, base))
            flipmeta.append(0)
            for bit in range(nr * 8):
                fl = bytearray(base)
                fl[bit // 8] ^= 1 << (bit % 8)
                cmds2.append(gs_cmd("gensalt_rn", pfx, 0, bytes(fl)))
                flipmeta.append(bit + 1)
    ev2 = ctx.run_xcv(cmds2)
    gsev = [e for e in ev2 if e.get("e") in vlib.GS]
    if len(gsev) != len(flipmeta):
        raise Broken("flip grid lost calls")
    # real OS entropy: two calls must differ
    ev3 = ctx.run_xcv(["entropy 1 0"] + [gs_cmd("gensalt_rn", pfx, 0, None) for pfx in prefixes for _ in (0, 1)])
    for e in ev3:
        if e.get("e") in vlib.GS:
            e["fresh"] = 1
    # the fallback chain of get_random_bytes, each back-end failing in turn (Random.tla)
    rnd_cov = random_chain(ctx)
    allev = ev1 + ev3
    annotate_gs(allev)
    # the pair relation of the fresh draws: each second draw points at the first draw of the same request
    # (annotate_gs points gprev at the FIRST identical request, which is one of ev1's interposed-entropy calls:
    # found by the vacuity guard -- the "two real draws differ" clause had never been exercised)
    lastfresh = {}
    for i, e in enumerate(allev, 1):
        if e.get("e") in vlib.GS and e.get("fresh"):
            k = (tuple(e["prefix"]), e["prefixnull"])
            e["gprev"] = lastfresh.get(k, 0)
            lastfresh.setdefault(k, i)
    # fprev links inside the flip trace (base precedes its flips)
    annotate_gs(ev2)
    basei = 0
    idx = 0
    for i, e in enumerate(ev2, 1):
        if e.get("e") in vlib.GS:
            if flipmeta[idx] == 0:
                basei = i
            else:
                e["fprev"] = basei
            idx += 1
    chunks = []
    for evs, tag in ((allev, "a"), (ev2, "f")):
        chunks.append(evs)
    vs = []
    for evs, tag in ((allev, "laws"), (ev2, "flips")):
        step = 15000
        parts = []
        # flips: split on base boundaries
        cur = []
        for e in evs:
            if e.get("e") in vlib.GS and e.get("fprev", 0) == 0 and len(cur) > step:
                parts.append(cur); cur = []
            cur.append(e)
        parts.append(cur)
        for part in parts:
            off = evs.index(part[0])
            for e in part:
                for kk in ("gprev", "sprev", "s192", "fprev"):
                    if e.get(kk):
                        e[kk] = e[kk] - off + 1        # chunk-local, +1 for the config line
        res = ctx.validate_many([[cfgev] + part for part in parts], "TraceGensalt.tla", "TraceGensalt.cfg", tag, par=8)
        for v, part in zip(res, parts):
            ch = [cfgev] + part
            if os.environ.get("XCV_DEBUG"):
                for x in v["div"][:60]:
                    ev = ch[x["l"] - 1]
                    print("DIV", x["d"], compact(ev).get("prefix"), ev.get("count"), ev.get("nrbytes"), ev.get("osize"), ev.get("errno"), compact(ev).get("res"))
            for x in v["viol"]:
                ev = ch[x["l"] - 1]
                ctx.violation(x["p"], "%s failed at call %d (%s)" % (x["n"], x["l"], ev.get("e")), compact(ev))
        vs += res
    attribute(ctx)
    cov = gs_coverage(ctx, vs, ev1, {"bit_flips": sum(1 for x in flipmeta if x), "prefixes": len(prefixes),
                                     "predicates": ["Salt", "Flip", "Entropy"], "random_chain": rnd_cov})
    return "model_checking", cov, GS_ASSUME


def compiled_sources(ctx):
    """the operating-system sources util-get-random-bytes.c contains in this configuration (without arc4random_buf)"""
    cfg = open(os.path.join(vlib.REPO, "config.h")).read()
    have = lambda k: re.search(r"^#define %s 1" % k, cfg, re.M) is not None
    probe = subprocess.run(["gcc", "-E", "-dM", "-include", "sys/syscall.h", "-x", "c", "/dev/null"], capture_output=True).stdout.decode()
    out = []
    if have("HAVE_GETENTROPY"): out.append("e")
    if have("HAVE_GETRANDOM"): out.append("r")
    if have("HAVE_SYSCALL") and re.search(r"^#define SYS_getentropy ", probe, re.M): out.append("E")
    if have("HAVE_SYSCALL") and re.search(r"^#define SYS_getrandom ", probe, re.M): out.append("R")
    if have("HAVE_SYS_STAT_H") and have("HAVE_FCNTL_H") and have("HAVE_UNISTD_H"): out.append("u")
    return out


def random_chain(ctx):
    """Random.tla: the model is checked (all histories of 6 calls, liveness), the named deviation is shown to be the
    only hole of 'false sets errno', and EVERY history of MaxCalls calls that TLC generates for this platform's
    sources is replayed into the real get_random_bytes (one process per history: the flags are statics), the
    recorded attempts being folded through the same transition functions by TraceRandom."""
    quick = ctx.tier == "quick"
    mc = ctx.tlc("RandomMC.tla", "RandomMC.cfg", workers=4, timeout=900)
    if mc["violated"] or not mc["ok"]:
        raise Broken("RandomMC: %s" % (mc["violated"] or mc["out"][-800:]))
    dev = ctx.tlc("RandomMC.tla", "RandomMC_deviation.cfg", workers=1, timeout=300)
    if "FalseSetsErrnoStrict" not in str(dev["violated"]):
        raise Broken("RandomMC_deviation: the named deviation is no longer reachable in the model")
    comp = compiled_sources(ctx)
    if comp != ["e", "r", "R", "u"]:
        raise Broken("this platform compiles the sources %s; RandomMC_export.cfg enumerates e,r,R,u" % comp)
    d = os.path.join(ctx.dir, "rbehav")
    os.makedirs(d, exist_ok=True)
    for f in glob.glob(d + "/*"):
        os.unlink(f)
    ex = ctx.tlc("RandomMC.tla", "RandomMC_export.cfg" if quick else "RandomMC_export4.cfg", env={"XCV_BEHAV_DIR": d}, workers=1, timeout=1800)
    if ex["violated"] or not ex["ok"]:
        raise Broken("RandomMC export: %s" % (ex["violated"] or ex["out"][-800:]))
    hists = [[json.loads(x) for x in open(f) if x.strip()] for f in sorted(glob.glob(d + "/*.ndjson"))]
    if len(hists) < 1000:
        raise Broken("only %d histories exported" % len(hists))
    rng = ctx.rng
    cfgev = dict(config_event(ctx, "norand"))
    cfgev["compiled"] = comp
    salted = [m for m in cfgev["E"] if m not in ("nt", "bcrypt_x")]
    b = ctx.build("norand")

    def play(h):
        cmds = ["rsched " + ("".join("".join(c["ans"]) for c in h) or "=")]
        for c in h:
            m = rng.choice(salted)
            cmds.append(gs_cmd(rng.choice(("gensalt_rn", "gensalt_rn", "gensalt", "gensalt_ra")), gen.PREFIX[m], 0, None))
        # one more call after the enumerated ones, answered K by whatever source is still alive
        cmds.append(gs_cmd("gensalt_rn", gen.PREFIX[rng.choice(salted)], 0, None))
        return cmds
    scripts = [play(h) for h in hists]
    from concurrent.futures import ThreadPoolExecutor
    with ThreadPoolExecutor(12) as ex_:
        res = list(ex_.map(lambda s: ctx.run_xcv(s, flavour="norand"), scripts))
    events = []
    for h, evs in zip(hists, res):
        gsev = [e for e in evs if e.get("e") in vlib.GS]
        if len(gsev) != len(h) + 1 and not any(e.get("e") == "Fault" for e in evs):
            raise Broken("fallback-chain replay lost calls")
        events.append({"e": "NewProcess"})
        events += evs
    # the recorded attempt strings must be the scheduled ones (binding of the replay itself)
    nmis = 0
    for h, evs in zip(hists, res):
        gsev = [e for e in evs if e.get("e") in vlib.GS]
        for c, e in zip(h, gsev):
            if [a["a"] for a in e.get("att", [])] != c["ans"]:
                nmis += 1
    chunks, cur = [], [cfgev]
    for e in events:
        if e.get("e") == "NewProcess" and len(cur) > 4000:
            chunks.append(cur); cur = [cfgev]
        cur.append(e)
    chunks.append(cur)
    vs = ctx.validate_many(chunks, "TraceRandom.tla", "TraceRandom.cfg", "rnd", par=8, timeout=1800)
    nv = 0
    for v, ch in zip(vs, chunks):
        for x in v["viol"]:
            ev = ch[x["l"] - 1]
            nv += 1
            ctx.violation(x["p"], "fallback chain: %s failed at call %d (%s)" % (x["n"], x["l"], ev.get("e")), compact(ev))
    if os.environ.get("XCV_DEBUG"):
        for v, ch in zip(vs, chunks):
            for x in v["div"][:6]:
                ev = ch[x["l"] - 1]
                print("RDIV", x["d"], ev.get("e"), bytes(ev.get("prefix", [])), ev.get("att"), ev.get("ret"), ev.get("errno"), ev.get("ein"), bytes(ev.get("res", [])))
    ndiv = sum(len(v["div"]) for v in vs)
    kinds = sorted({x["d"] for v in vs for x in v["div"]})
    return {"model_divergences": ndiv, "divergence_kinds": kinds, "calls_whose_attempts_differ_from_the_generated_history": nmis, "model_states": mc.get("distinct"), "histories_generated_by_tlc_and_replayed": len(hists), "calls_replayed": sum(v["cnt"]["calls"] for v in vs),
            "calls_ok": sum(v["cnt"]["ok"] for v in vs), "calls_failed": sum(v["cnt"]["failed"] for v in vs), "sources_compiled": comp,
            "predicates": ["OSBytes (C12)"], "conformance_divergences_reported_not_fatal": ["ChainOrder", "GaveUpEarly", "ChainResult", "ChainErrno", "FdLeak"],
            "named_deviation": "a short read of /dev/urandom returns false without writing errno (RandomMC_deviation.cfg finds it; outside the listed properties)"}


@prop("C13")
def c13(ctx):
    quick = ctx.tier == "quick"
    cfgev = config_event(ctx)
    rng = ctx.rng
    prefixes = [gen.PREFIX[m] for m in gen.METHODS if gen.PREFIX[m]] + ["", None, "$9$"]
    counts = [0, 1000, 5, 999999999] if quick else [0, 1, 5, 11, 12, 1000, 1001, 99999, 100000, 999999999, 2 ** 64 - 1]
    nrs = [None, 3, 16, 64, 100, 256] if quick else [None, 0, 2, 3, 8, 15, 16, 20, 64, 65, 100, 133, 256]
    sizes = [192] + [s for s in range(-2, 257) if s != 192] + ([] if quick else [300, 1000, 4096])
    cmds = ["entropy 0 7"]
    n = 0
    for pfx in prefixes:
        for c in counts:
            for nr in nrs:
                rb = None if nr is None else bytes(rng.randrange(256) for _ in range(nr))
                for sz in sizes:
                    cmds.append(gs_cmd("gensalt_rn", pfx, c, rb, "len", sz))
                    n += 1
    # "never terminates the process": every small count (where the clamps and window widths of the linear-cost methods
    # degenerate: a width of count / 4 is zero for count < 4) at a documented, a tight and a too-small size
    for pfx in prefixes:
        for c in list(range(1, 41)) + [2 ** 16 - 1, 2 ** 16, 2 ** 32 - 1, 2 ** 32]:
            rb = bytes(rng.randrange(256) for _ in range(rng.choice((16, 20, 64))))
            for sz in (192, 30, 12):
                cmds.append(gs_cmd("gensalt_rn", pfx, c, rb, "len", sz))
                n += 1
    # negative and huge nrbytes, random large sizes
    for pfx in prefixes:
        rb = bytes(rng.randrange(256) for _ in range(16))
        for nrb in (-1, -2147483648, 0):
            cmds.append(gs_cmd("gensalt_rn", pfx, 0, rb, str(nrb), 192))
        # byte counts near INT_MAX (legal for an int): size arithmetic on them must not wrap
        rb300 = bytes(rng.randrange(256) for _ in range(300))
        for nrb in (2 ** 30 + 4, 2 ** 30 + 100, 2 ** 31 - 1):
            for sz in (19, 20, 21, 23, 24, 64, 192):
                cmds.append(gs_cmd("gensalt_rn", pfx, rng.choice((0, 0, 4000000000)), rb300, str(nrb), sz))
        for sz in (1048576, 65536, rng.randrange(257, 10 ** 6)):
            cmds.append(gs_cmd("gensalt_rn", pfx, 0, rb, "len", sz))
    ev1 = ctx.run_xcv(cmds, timeout=1800)
    vs = judge_gs(ctx, ev1, "sz", cfgev, par=12)
    attribute(ctx)
    cov = gs_coverage(ctx, vs, ev1, {"grid_points": n, "sizes": "-2..256 complete", "prefixes": len(prefixes), "counts": len(counts),
                                     "nrbytes_classes": len(nrs), "exhaustive": True,
                                     "predicates": ["Local (fits, token, guard bytes, errno)", "Monotone", "Full", "Enough", "Fault"]})
    return "model_checking", cov, GS_ASSUME


# ============================================================================= settings-language family
def digest_len_of(out, m, plen, slen):
    if m == "bigcrypt":
        if plen > 8 and slen <= 13:
            return 11
        return len(out) - 2
    return gen.DIGLEN[m]


def hash_alphabet(m):
    if m == "nt":
        return "0123456789abcdef"
    return gen.B64


@prop("C01")
def c01(ctx):
    quick = ctx.tier == "quick"
    cfgev = config_event(ctx)
    E = cfgev["E"]
    rng = ctx.rng
    # model-level laws on grammar-directed domains
    laws = ctx.tlc("SettingsLaws.tla", "SettingsLaws.cfg", workers=4, timeout=900)
    if laws["violated"] or not laws["ok"]:
        raise Broken("SettingsLaws: %s\n%s" % (laws["violated"], laws["out"][-1500:]))
    reqs = []
    for m in E:
        sets = gen.valid_settings(m, rng, full=not quick) + gen.grammar_boundaries(m, rng) + gen.zero_settings(m, rng)
        phs = [b"", gen.rand_phrase(rng, 1), gen.rand_phrase(rng, 8), gen.rand_phrase(rng, 9, False), gen.rand_phrase(rng, 73),
               gen.rand_phrase(rng, 200)] if quick else gen.phrases(rng, full=False)
        for s in sets:
            for ph in (phs if len(s) < 200 else phs[:3]):
                reqs.append((m, ph, s))
    cmds = ["obj 0 0 0"] + ["crypt_rn 0 %s %s 32768" % (hx(ph), hx(s)) for (m, ph, s) in reqs]
    ev1 = ctx.run_xcv(cmds)
    calls = [e for e in ev1 if e.get("e") == "crypt_rn"]
    if len(calls) != len(reqs):
        raise Broken("lost calls")
    # second pass: H as the setting, and H with its digest part replaced by other text of the alphabet
    base_index = {id(e): i + 1 for i, e in enumerate(ev1)}
    cmds2, links = ["obj 1 3 2"], []
    for (m, ph, s), e in zip(reqs, calls):
        if not (e["ret"] == "out" and e["out"] and e["out"][0] != 42):
            continue
        H = bytes(e["out"]).decode("latin-1")
        dl = digest_len_of(H, m, len(ph), len(s))
        variants = [(H, len(H))]
        alpha = hash_alphabet(m)
        for _ in range(2 if quick else 4):
            variants.append((H[:len(H) - dl] + "".join(rng.choice(alpha) for _ in range(dl)), len(H) - dl))
        if m == "bigcrypt" and dl > 11:
            variants.append((H[:len(H) - 11] + "".join(rng.choice(alpha) for _ in range(11)), len(H) - 11))
        for (hs, keep) in variants:
            fn = rng.choice(("crypt_rn 1 %s %s 32768", "crypt_r 1 %s %s", "crypt - %s %s", "crypt_ra 0 %s %s"))
            cmds2.append(fn % (hx(ph), hx(hs)))
            links.append((base_index[id(e)], keep))
    ev2 = ctx.run_xcv(cmds2)
    calls2 = [e for e in ev2 if e.get("e") in ("crypt_rn", "crypt_r", "crypt", "crypt_ra")]
    if len(calls2) != len(links):
        raise Broken("lost calls in pass 2")
    for e, (bi, keep) in zip(calls2, links):
        e["hprev"] = bi + 1       # +1: the config line
        e["hkeep"] = keep
    v = judge(ctx, ev1 + ev2, "rt", cfgev)
    attribute(ctx)
    cov = mc_coverage(ctx, laws.get("distinct", 1), laws.get("generated", 1), [v], ev1 + ev2,
                      {"requests": len(reqs), "round_trip_calls": len(links),
                       "predicates": ["RoundTrip: crypt(P, H) = H and crypt(P, H with digest part replaced) = H",
                                      "model laws Idem/OnlySetting (SettingsLaws.tla)"]})
    return "model_checking", cov, ASSUME_COMMON


@prop("C06")
def c06(ctx):
    quick = ctx.tier == "quick"
    cfgev = config_event(ctx)
    E = cfgev["E"]
    rng = ctx.rng
    laws = ctx.tlc("SettingsLaws.tla", "SettingsLaws.cfg", workers=4, timeout=900)
    if laws["violated"] or not laws["ok"]:
        raise Broken("SettingsLaws: %s" % laws["violated"])
    cmds = ["obj 0 0 0", "hset 0 0 0"]
    n = 0
    for m in E:
        sets = gen.valid_settings(m, rng, full=not quick) + gen.grammar_boundaries(m, rng)
        for s in sets:
            for ph in ((b"", gen.rand_phrase(rng, 5), gen.rand_phrase(rng, 20), gen.rand_phrase(rng, 128), gen.rand_phrase(rng, 129))
                       if quick else gen.phrases(rng)):
                # the output field holds residue of a longer earlier result or junk: termination must not rely on it
                r = rng.random()
                if r < 0.4:
                    cmds.append("obj 0 %d %d" % (rng.randrange(16), rng.choice((1, 2, 3))))
                elif r < 0.7:
                    cmds.append("crypt_rn 0 %s %s 32768" % (hx(b"x"), hx("$6$rounds=1000$" + gen.salt(rng, 16))))
                fn = rng.choice(("crypt_rn 0 %s %s 32768", "crypt_r 0 %s %s", "crypt - %s %s", "crypt_ra 0 %s %s"))
                if fn.startswith("crypt -") and r < 0.7:
                    cmds.append("crypt - %s %s" % (hx(b"x"), hx("$6$rounds=1000$" + gen.salt(rng, 16))))
                cmds.append(fn % (hx(ph), hx(s)))
                n += 1
    ev1 = ctx.run_xcv(cmds)
    # every distinct successful result is itself accepted as a setting, by checksalt and as a gensalt prefix
    cmds2, cmds3 = ["obj 0 0 0"], []
    seen = set()
    for e in ev1:
        if e.get("e") in ("crypt_rn", "crypt_r", "crypt", "crypt_ra") and e["ret"] == "out" and e["outk"] == "str" and e["out"] and e["out"][0] != 42:
            H = bytes(e["out"])
            if H in seen:
                continue
            seen.add(H)
            if len(seen) % (4 if quick else 1) == 0:
                cmds2.append("checksalt %s" % hx(H))
                cmds3.append(gs_cmd("gensalt_rn", H.decode("latin-1"), 0, bytes(rng.randrange(256) for _ in range(20))))
    ev2 = ctx.run_xcv(cmds2)
    ev3 = ctx.run_xcv(cmds3)
    v1 = judge(ctx, ev1 + ev2, "shape", cfgev)
    vs = judge_gs(ctx, ev3, "gs", cfgev)
    attribute(ctx)
    # C06 also owns the gensalt-prefix clause judged by TraceGensalt's Safe predicate
    for (p, what, payload) in list(ctx.violations):
        if p == "C10" and what.startswith("Safe"):
            ctx.violations.append(("C06", what, payload))
    cov = mc_coverage(ctx, laws.get("distinct", 1), laws.get("generated", 1), [v1], ev1 + ev2,
                      {"hash_calls": n, "distinct_results": len(seen), "gensalt_prefix_calls": sum(x["cnt"]["calls"] for x in vs),
                       "predicates": ["Shape", "CanonPrefix", "Checksalt(result) != INVALID", "gensalt(result) selects the same method"]})
    return "model_checking", cov, ASSUME_COMMON


def cost_respellings(m, s):
    """other spellings of the decimal cost field that denote a different (out-of-range) cost: a parser that wraps
    or truncates hashes them like the base setting, i.e. two different cost fields, one hash part"""
    out = []
    if m in ("sha512crypt", "sha256crypt") and "rounds=1000$" in s:
        out += [s.replace("rounds=1000$", "rounds=%s$" % r) for r in ("999", "1", "500", "0999")]     # below the minimum: refused, not clamped
    for k in (2 ** 32, 2 ** 33, 2 ** 64):
        if m in ("sha512crypt", "sha256crypt") and "rounds=1000$" in s:
            out.append(s.replace("rounds=1000$", "rounds=%d$" % (1000 + k)))
        if m == "sunmd5" and "rounds=1$" in s:
            out.append(s.replace("rounds=1$", "rounds=%d$" % (1 + k)))
    return out


def cost_plus_one(m, s):
    """the same setting with its cost changed by one step inside the documented range (or None)"""
    if m in ("sha512crypt", "sha256crypt") and "rounds=1000$" in s:
        return s.replace("rounds=1000$", "rounds=1001$")
    if m == "sha1crypt":
        return s.replace("$sha1$20$", "$sha1$21$")
    if m == "sunmd5":
        return s.replace("rounds=1$", "rounds=2$")
    if m in ("bcrypt", "bcrypt_a", "bcrypt_x", "bcrypt_y"):
        return s.replace("$04$", "$05$")
    if m in ("yescrypt", "gost_yescrypt"):
        return s.replace("j65$", "j75$")
    if m == "scrypt":
        return s.replace("$7$56", "$7$66")
    return None


@prop("C03")
def c03(ctx):
    quick = ctx.tier == "quick"
    cfgev = config_event(ctx)
    E = cfgev["E"]
    rng = ctx.rng
    laws = ctx.tlc("SettingsLaws.tla", "SettingsLaws.cfg", workers=4, timeout=900)
    if laws["violated"] or not laws["ok"]:
        raise Broken("SettingsLaws: %s" % laws["violated"])
    cmds = ["logpc 1", "obj 0 0 0"]
    meta = []          # for each crypt command: index (among crypt commands) of its base, or -1
    nbase = 0
    for m in E:
        s_main = cheap_setting(m, rng)
        if m == "bsdicrypt":
            s_main = "_J9.." + gen.salt(rng, 4)
        if m == "bigcrypt":
            s_main = gen.salt(rng, 2) + "." * 22      # longer than a traditional hash: bigcrypt itself, not the forward to descrypt
        # degenerate spellings of the cost field (zero / empty / implicit default): the edge of every rounds loop
        degenerate = {"sha1crypt": ["$sha1$0$" + gen.salt(rng, 8), "$sha1$$" + gen.salt(rng, 8)],
                      "sha256crypt": ["$5$" + gen.salt(rng, 16)], "sha512crypt": ["$6$" + gen.salt(rng, 16)],
                      "md5crypt": ["$1$"], "bsdicrypt": ["_/..." + gen.salt(rng, 4)],
                      # (text after a traditional hash, e.g. an SVR4 ",<aging>" field: still longer than 13, still bigcrypt)
                      "bigcrypt": [gen.salt(rng, 2) + "$" + "." * 13, gen.salt(rng, 13) + "," + gen.salt(rng, 4)]}.get(m, [])
        for s0 in [s_main] + degenerate:
            lens = (9, 32, 64, 73, 130, 511) if quick else (1, 7, 8, 9, 16, 31, 32, 33, 55, 56, 63, 64, 65, 72, 73, 127, 128, 129, 200, 256, 257, 511)
            if m in ("scrypt", "yescrypt", "gost_yescrypt") and quick:
                lens = (9, 73, 511)
            if m in ("bcrypt", "bcrypt_a", "bcrypt_x", "bcrypt_y") and quick:
                lens = (9, 73, 257, 300)          # (beyond 255: a key length kept in a byte wraps)
            if s0 is not s_main:
                lens = (9, 73) if quick else (8, 9, 64, 73, 200)
            for n in tuple(lens) + ((-24,) if s0 is s_main else ()):
                special = n < 0
                n = abs(n)
                P = bytearray(gen.rand_phrase(rng, n, eightbit=(m not in ("bcrypt_x", "bcrypt_a"))))
                if special:
                    # a base phrase with the bytes a C string routine or a line reader treats specially: 0x80 (zero once
                    # the eighth bit is stripped) at the 8-byte block boundaries, a trailing newline, CR, tab, DEL
                    if m not in ("bcrypt_x", "bcrypt_a"):
                        P[8] = P[16] = 0x80
                    P[3], P[12], P[22], P[23] = 0x09, 0x7f, 0x0d, 0x0a
                base_i = len(meta)
                cmds.append("crypt_rn 0 %s %s 32768" % (hx(bytes(P)), hx(s0)))
                meta.append(-1)
                nbase += 1
                pert = []
                edges = {0, 6, 7, 8, 9, 15, 16, 63, 64, 70, 71, 72, 73, 126, 127, 128, 129, n - 2, n - 1}
                for pos in range(n):
                    bits = range(8) if pos in edges and m not in ("scrypt",) else ([rng.randrange(8)] if quick else rng.sample(range(8), 2))
                    if quick and pos not in edges and n > 100 and pos % 3:
                        continue
                    for b in bits:
                        Q = bytearray(P)
                        Q[pos] ^= 1 << b
                        if Q[pos] == 0:
                            continue
                        pert.append(bytes(Q))
                for cut in sorted({1, 7, 8, 9, 71, 72, 73, 127, 128, n - 1} & set(range(0, n))):
                    pert.append(bytes(P[:cut]))                               # truncations
                for ext in (1, 2):
                    if n + ext <= 511:
                        pert.append(bytes(P) + gen.rand_phrase(rng, ext))     # extensions
                for Q in pert:
                    cmds.append("crypt_rn 0 %s %s 32768" % (hx(Q), hx(s0)))
                    meta.append(base_i)
            # every single-character change of the setting (salt and cost), same phrase
            P = gen.rand_phrase(rng, 12, eightbit=False)
            base_i = len(meta)
            cmds.append("crypt_rn 0 %s %s 32768" % (hx(P), hx(s0)))
            meta.append(-1)
            span = cost_span(m, s0.encode("latin-1"))
            for pos in range(len(s0)):
                for rep in range(3):
                    # two members of the alphabet, one neighbour of it (refused by the specification; a decoder
                    # that aliases it to a member reproduces another setting's hash: judged by FalseAccept / C05)
                    c = rng.choice(gen.B64) if rep < 2 else rng.choice("[]^_`@{}-+=~,#%&()<>?\"'|")
                    if c == s0[pos]:
                        continue
                    if pos in span and not (m == "bsdicrypt" and pos in (1, 2, 4)):
                        continue
                    t = s0[:pos] + c + s0[pos + 1:]
                    if m == "bsdicrypt" and pos == 4:
                        t = s0[:pos] + "/" + s0[pos + 1:]          # count + 2^18
                    cmds.append("crypt_rn 0 %s %s 32768" % (hx(P), hx(t)))
                    meta.append(base_i)
            t = cost_plus_one(m, s0)
            if t and t != s0:
                cmds.append("crypt_rn 0 %s %s 32768" % (hx(P), hx(t)))
                meta.append(base_i)
            for t in cost_respellings(m, s0):
                cmds.append("crypt_rn 0 %s %s 32768" % (hx(P), hx(t)))
                meta.append(base_i)
    ev1 = ctx.run_xcv(cmds, timeout=1800)
    calls = [(i, e) for i, e in enumerate(ev1) if e.get("e") == "crypt_rn"]
    if len(calls) != len(meta):
        raise Broken("lost calls")
    pos_of = [i for i, e in calls]
    for (i, e), b in zip(calls, meta):
        if b >= 0:
            e["bprev"] = pos_of[b] + 2          # 1-based, +1 for the config line
    v = judge(ctx, ev1, "pert", cfgev)
    # verification-style pass: each base result H is used as the SETTING (the way a stored hash is checked) with phrases
    # that differ from the enrolled one -- extended, truncated, last byte changed; none may reproduce H
    cmds2, meta2 = ["logpc 1", "obj 0 0 0"], []
    nver = 0
    for (i, e), b in zip(calls, meta):
        if b != -1 or not (e["ret"] == "out" and e["outk"] == "str" and e["out"] and e["out"][0] != 42):
            continue
        P, H = bytes.fromhex(e["ph"]) if e["ph"] else b"", bytes(e["out"])
        if len(P) in (0,) or (quick and nver >= 400):
            continue
        nver += 1
        base_i = len(meta2)
        cmds2.append("crypt_rn 0 %s %s 32768" % (hx(P), hx(H)))
        meta2.append(-1)
        cand = [P + b"X", P + gen.rand_phrase(rng, 8), P[:-1], P[:-1] + bytes([P[-1] ^ 0x01 or 0x02]), P + b"\n", P + b"\r\n", P + b" "]
        if len(P) > 8:
            cand.append(P[:-8])
        for Q in cand:
            if 0 < len(Q) < 512 and Q != P:
                cmds2.append("crypt_rn 0 %s %s 32768" % (hx(Q), hx(H)))
                meta2.append(base_i)
    ev2 = ctx.run_xcv(cmds2, timeout=1800)
    calls2 = [(i, e) for i, e in enumerate(ev2) if e.get("e") == "crypt_rn"]
    if len(calls2) != len(meta2):
        raise Broken("lost calls in the verification pass")
    pos2 = [i for i, e in calls2]
    for (i, e), b in zip(calls2, meta2):
        if b >= 0:
            e["bprev"] = pos2[b] + 2
    v2 = judge(ctx, ev2, "verify", cfgev)
    attribute(ctx)
    cov = mc_coverage(ctx, laws.get("distinct", 1), laws.get("generated", 1), [v, v2], ev1,
                      {"base_requests": nbase, "perturbed_requests": sum(1 for b in meta if b >= 0),
                       "stored_hashes_verified_against_other_phrases": nver,
                       "predicates": ["Distinct: a significant change (Settings!PhraseKey / canonical setting) changes the digest part"]})
    return "model_checking", cov, ASSUME_COMMON + ["collision resistance of the digests is the oracle for 'took part in the hash'"]


@prop("C18")
def c18(ctx):
    quick = ctx.tier == "quick"
    cfgev = config_event(ctx)
    E = cfgev["E"]
    rng = ctx.rng
    # model-level laws over every class string up to length 4
    laws = ctx.tlc("ChecksaltMC.tla", "ChecksaltMC.cfg", workers=8, timeout=1200)
    if laws["violated"] or not laws["ok"]:
        raise Broken("ChecksaltMC: %s\n%s" % (laws["violated"], laws["out"][-1500:]))
    # the implementation on EVERY byte string of length <= 3 (printable length 4 in thorough), by class
    sw = ctx.build_tool("hooks", "sweep18.c", "sweep18")
    b = ctx.build("hooks")
    r = subprocess.run([sw, os.path.join(b, "libxcv.so"), "3" if quick else "4"], capture_output=True, text=True, timeout=1800)
    if r.returncode != 0:
        raise Broken("sweep18 failed: " + r.stderr[-500:])
    sweep = [json.loads(x) for x in r.stdout.splitlines() if x.startswith("{")]
    nstrings = sum(e.get("n", 0) for e in sweep)
    # long strings with each tag, every successful crypt input, preferred method
    cmds = ["obj 0 0 0", "preferred"]
    for m in E:
        for s in gen.valid_settings(m, rng, full=False)[: (12 if quick else 1000)]:
            cmds.append("checksalt %s" % hx(s))
            cmds.append("crypt_rn 0 %s %s 32768" % (hx(b"pw"), hx(s)))
        for L in (20, 100, 383, 384, 385, 1000, 20000):
            t = gen.PREFIX[m] + gen.salt(rng, L)
            cmds.append("checksalt %s" % hx(t))
            t2 = gen.PREFIX[m] + gen.salt(rng, L // 2) + rng.choice(":;*!\\ \x7f\x80\n") + gen.salt(rng, L // 2)
            cmds.append("checksalt %s" % hx(t2.encode("latin-1")))
    for s in gen.INVALID_SETTINGS:
        cmds.append("checksalt %s" % hx(s.encode("latin-1")))
    # an unrecognised tag classified three times in a row after each method's own setting (history independence)
    for m in E:
        for u in REFUSED_TAGS:
            cmds.append("checksalt %s" % hx(cheap_setting(m, rng)))
            cmds += ["checksalt %s" % hx((u + gen.salt(rng, 8)).encode("latin-1"))] * 3
    for _ in range(200 if quick else 5000):
        n = rng.choice((4, 5, 6, 8, 13, 30))
        cmds.append("checksalt %s" % hx(bytes(rng.choice((36, 36, 50, 97, 98, 121, 95, 103, 109, 100, 53, 115, 104, 49, 54, 55, 51, 120, 46, 81, 35, 58, 200)) for _ in range(n))))
    cmds.append("checksalt -")
    ev1 = ctx.run_xcv(cmds)
    v1 = judge(ctx, sweep + ev1, "cs", cfgev)
    # NULL prefix == preferred prefix, for every count class and random bytes
    g = []
    pref = gen.PREFIX[next((m for m in gen.METHODS if m in E and m in ("yescrypt", "bcrypt", "sha512crypt")), "yescrypt")]
    for c in [0, 1, 2, 4, 5, 6, 7, 11, 12, 13, 31, 1000, 5000, 99999, 2 ** 32]:
        for nr in (0, 3, 15, 16, 20, 64):
            rb = bytes(rng.randrange(256) for _ in range(nr))
            for sz in (192, 30, 80):
                g.append(gs_cmd("gensalt_rn", pref, c, rb, "len", sz))
                g.append(gs_cmd("gensalt_rn", None, c, rb, "len", sz))
    ev2 = ctx.run_xcv(g)
    annotate_gs(ev2)
    gi = [i for i, e in enumerate(ev2, 1) if e.get("e") in vlib.GS]
    for a, bb in zip(gi[0::2], gi[1::2]):
        ev2[bb - 1]["nprev"] = a
    for e in ev2:
        for kk in ("gprev", "sprev", "s192", "fprev", "nprev"):
            if e.get(kk):
                e[kk] += 1
    v2 = ctx.validate_trace([cfgev] + ev2, "TraceGensalt.tla", "TraceGensalt.cfg", "np")
    for x in v2["viol"]:
        ev = ([cfgev] + ev2)[x["l"] - 1]
        ctx.violation(x["p"], "%s failed at call %d (%s)" % (x["n"], x["l"], ev.get("e")), compact(ev))
    attribute(ctx)
    cov = mc_coverage(ctx, laws.get("distinct", 1), laws.get("generated", 1), [v1], ev1,
                      {"byte_strings_swept": nstrings, "class_strings": len(sweep), "exhaustive": True,
                       "null_vs_preferred_pairs": len(gi) // 2,
                       "predicates": ["ChecksaltClass (every byte string <= 3%s)" % ("" if quick else ", printable 4"), "Checksalt", "CanHash",
                                      "Preferred", "NullIsPreferred", "model laws TagOnly/CanHash/ClassInvariance"]})
    return "model_checking", cov, ASSUME_COMMON


# ============================================================================= C02
RELEASED_LIB = "/usr/lib/x86_64-linux-gnu/libcrypt.so.1"


def c02_corpus(rng, E, quick, fixed):
    """(phrase, setting) pairs: every phrase-length class that matters for 64/128-byte blocks and the
    16/32/64-byte recycling loops x salt lengths x cost spellings x 8-bit content (incl. 0x80, 0xff)."""
    lens = [0, 1, 7, 8, 9, 15, 16, 17, 31, 32, 33, 55, 56, 63, 64, 65, 72, 73, 111, 112, 119, 120, 127, 128, 129, 200, 255, 256, 257, 511]
    out = []
    for m in E:
        sets = []
        if m in ("sha512crypt", "sha256crypt"):
            p = gen.PREFIX[m]
            sets = [p + gen.salt(rng, n) for n in (0, 1, 8, 15, 16)] + [p + "rounds=1000$" + gen.salt(rng, 16), p + "rounds=1001$" + gen.salt(rng, 7),
                                                                           p + "rounds=5000$" + gen.salt(rng, 3), p + "rounds=1234$" + gen.salt(rng, 12)]
        elif m == "md5crypt":
            sets = ["$1$" + gen.salt(rng, n) for n in (0, 1, 4, 7, 8)]
        elif m == "sunmd5":
            sets = ["$md5$" + gen.salt(rng, 8), "$md5," + gen.salt(rng, 4) + "$", "$md5$rounds=1$" + gen.salt(rng, 8) + "$",
                    "$md5,rounds=300$" + gen.salt(rng, 1) + "$$", "$md5$",
                    "$md5$rounds=1$" + gen.salt(rng, 9), "$md5$rounds=2$" + gen.salt(rng, 16) + "$", "$md5,rounds=1$" + gen.salt(rng, 40) + "$$"]
        elif m == "sha1crypt":
            sets = ["$sha1$%d$%s" % (it, gen.salt(rng, n)) for it, n in ((1, 8), (2, 1), (7, 64), (24, 16), (100, 12))]
            sets += ["$sha1$0$" + gen.salt(rng, 8), "$sha1$$" + gen.salt(rng, 8), "$sha1$00$" + gen.salt(rng, 5)]   # zero / empty iteration field
        elif m == "nt":
            sets = ["$3$"]
        elif m in ("bcrypt", "bcrypt_a", "bcrypt_x", "bcrypt_y"):
            sets = [gen.PREFIX[m] + c + "$" + gen.salt(rng, 21, gen.BF64) + rng.choice(".Oeu") for c in ("04", "04", "05")]
        elif m == "yescrypt":
            sets = ["$y$j65$" + gen.ysalt(rng, 22), "$y$j75$" + gen.ysalt(rng, 4), "$y$j64$" + gen.ysalt(rng, 86), "$y$j85$",
                    "$y$j75/2$" + gen.ysalt(rng, 8), "$y$j750.$" + gen.ysalt(rng, 8), "$y$.65$" + gen.ysalt(rng, 8), "$y$/65$" + gen.ysalt(rng, 8)]
        elif m == "gost_yescrypt":
            sets = ["$gy$j65$" + gen.ysalt(rng, 22), "$gy$j75$" + gen.ysalt(rng, 4), "$gy$j64$" + gen.ysalt(rng, 43)]
        elif m == "scrypt":
            sets = ["$7$56..../...." + gen.salt(rng, 8), "$7$46..../...." + gen.salt(rng, 22), "$7$55..../2..." + gen.salt(rng, 4), "$7$56..../....ab$cd"]
        elif m == "bsdicrypt":
            sets = ["_/..." + gen.salt(rng, 4), "_5..." + gen.salt(rng, 4), "_J9.." + gen.salt(rng, 4), "_0/.." + gen.salt(rng, 4)]
        elif m in ("bigcrypt", "descrypt"):
            sets = [gen.salt(rng, 2) for _ in range(3)] + [gen.salt(rng, 2) + gen.salt(rng, 22)]
        cheap = m in ("nt", "md5crypt", "descrypt", "bigcrypt", "bsdicrypt", "sha1crypt")
        if m in ("bcrypt", "bcrypt_a", "bcrypt_x", "bcrypt_y"):
            s0 = gen.PREFIX[m] + "04$" + gen.salt(rng, 21, gen.BF64)
            for ph in gen.bcrypt_sign_family(rng):
                out.append((ph, s0 + rng.choice(".Oeu9Zz/A")))          # incl. non-canonical 22nd salt characters
        if m == "yescrypt":
            for s in gen.yescrypt_param_sweep(rng, full=not quick):
                if s.startswith("$y$") or ("gost_yescrypt" in E and s.startswith("$gy$")) or ("scrypt" in E and s.startswith("$7$")):
                    out.append((gen.rand_phrase(rng, rng.choice((1, 9, 40))), s))
            for s in gen.yescrypt_malformed_params(rng, full=False)[:: (7 if quick else 1)]:
                out.append((b"pw", s))
        for s in gen.numeric_wrap_settings():
            if gen.PREFIX[m] and s.startswith(gen.PREFIX[m]):
                out.append((b"pw", s))
        if m in ("sha256crypt", "sha512crypt"):
            # a cost far above what a quick sweep uses, once: any valid stored hash up to rounds=999999999 must keep verifying
            out.append((b"pw", gen.PREFIX[m] + "rounds=10000000$saltsalt"))
        if m == "bigcrypt":
            for ph, st in gen.BIGCRYPT_CHAIN_COLLISIONS:
                out.append((ph.encode(), st + "." * 22))
                out.append((ph.encode()[:16], st + "." * 22))
        for s in gen.zero_settings(m, rng):
            out.append((b"pw", s))
            out.append((b"a-phrase-longer-than-eight", s))
        # the edges of the method's setting grammar (accepted or not: Settings.tla decides; what they hash to: the released library)
        for s in gen.grammar_boundaries(m, rng):
            out.append((b"pw", s))
            out.append((gen.rand_phrase(rng, 9, eightbit=False), s))
        ls = lens if (not quick or cheap) else [x for i, x in enumerate(lens) if i % 2 == 0 or x in (8, 9, 64, 72, 73, 128)]
        if m in ("scrypt",):
            ls = ls[::3] + [33, 64, 65]
        for i, s in enumerate(sets):
            for n in (ls if i < 3 or not quick else ls[::4]):
                out.append((gen.rand_phrase(rng, n, eightbit=False), s))
                if n:
                    P = bytearray(gen.rand_phrase(rng, n))
                    P[rng.randrange(n)] = rng.choice((0x80, 0xff, 0x81, 0x7f))
                    out.append((bytes(P), s))
    return out


def to_instances(e):
    """split a call's compression events into chains (each `in` is the previous `out`): purely structural"""
    inst, cur = [], None
    for c in e["cfs"]:
        if cur is None or c["a"] != cur["a"] or c["in"] != cur["c"][-1]["out"]:
            cur = {"a": c["a"], "c": []}
            inst.append(cur)
        cur["c"].append({"in": c["in"], "blk": c["blk"], "out": c["out"]})
    e["cfs"] = {"k": "inst", "c": inst}


def c02_scripts(ctx, E, quick):
    rng = ctx.rng
    per = {}
    lens_q = [0, 1, 7, 8, 9, 15, 16, 17, 55, 56, 63, 64, 65]
    lens_t = lens_q + [31, 32, 33, 72, 73, 111, 112, 119, 120, 127, 128, 129]
    for m in ("descrypt", "bigcrypt", "bsdicrypt", "md5crypt", "nt", "sha256crypt", "sha512crypt", "sha1crypt", "sunmd5"):
        if m not in E or (quick and m == "sunmd5"):      # sunmd5: >= 4096 rounds, ~50k compressions per call: thorough only
            continue
        reqs = []
        lens = list(lens_q if quick else lens_t)
        if m in ("descrypt", "bigcrypt", "bsdicrypt", "md5crypt", "nt", "sha1crypt"):
            lens += [130, 200, 511] if quick else [130, 200, 255, 256, 257, 400, 511]
        if m == "sunmd5":
            lens = [9] if quick else [0, 1, 9, 64, 70, 200, 511]
        if quick and m not in ("sunmd5",):
            lens = [n for i, n in enumerate(lens) if i % 2 == 0 or n in (8, 9, 64, 511)]
        for n in lens:
            if m in ("descrypt", "bigcrypt"):
                s = gen.salt(rng, 2) + (gen.salt(rng, 22) if (m == "bigcrypt" and rng.random() < 0.7) else "")
            elif m == "bsdicrypt":
                s = "_" + rng.choice(("/...", "3...", "J9..", "Z1..")) + gen.salt(rng, 4)
            elif m == "md5crypt":
                s = "$1$" + gen.salt(rng, rng.choice((0, 1, 5, 8, 11)))
            elif m == "nt":
                s = "$3$"
            elif m in ("sha256crypt", "sha512crypt"):
                s = gen.PREFIX[m] + "rounds=%d$" % rng.choice((1000, 1001, 1003, 1007)) + gen.salt(rng, rng.choice((0, 1, 7, 16, 19)))
            elif m == "sha1crypt":
                s = "$sha1$%d$%s" % (rng.choice((1, 2, 3, 17, 24)), gen.salt(rng, rng.choice((1, 8, 64))))
            else:
                s = rng.choice(("$md5$", "$md5,")) + rng.choice(("", "rounds=2$", "rounds=11$")) + gen.salt(rng, rng.choice((0, 4, 8))) + rng.choice(("", "$", "$$"))
            P = bytearray(gen.rand_phrase(rng, n))
            if n and rng.random() < 0.5:
                P[rng.randrange(n)] = rng.choice((0x80, 0xff))
            reqs.append((bytes(P), s))
        per[m] = reqs
    # bcrypt: the key expansion (BFSetKey) for the sign-extension key family and long keys, all four subtypes
    for m in ("bcrypt", "bcrypt_a", "bcrypt_x", "bcrypt_y"):
        if m in E:
            s0 = gen.PREFIX[m] + "04$" + gen.salt(rng, 22, gen.BF64)
            fam = gen.bcrypt_sign_family(rng)
            keys = (fam if not quick else fam[::4] + fam[-7:]) + [gen.rand_phrase(rng, n) for n in (0, 1, 3, 4, 17, 55, 71, 72, 73, 74, 200, 511)]
            per[m] = [(k, s0) for k in keys]
    # gost-yescrypt relative to yescrypt: each $gy$ request is preceded by the $y$ request with the same parameters and salt
    if "gost_yescrypt" in E and "yescrypt" in E:
        g = []
        for n in ((0, 9, 64, 200) if quick else (0, 1, 8, 9, 31, 32, 33, 63, 64, 65, 127, 128, 129, 200, 511)):
            ph = gen.rand_phrase(rng, n)
            rest = rng.choice(("j65$", "j75$", "j64$")) + gen.ysalt(rng, rng.choice((0, 4, 8, 22, 86))) + rng.choice(("", "$", "$ignored"))
            g += [(ph, "$y$" + rest), (ph, "$gy$" + rest)]
        per["gost_yescrypt"] = g
    # yescrypt family: decoded parameters, salt and the smix schedule over N, r, p, t (incl. one default-cost call: prehash pass)
    if "yescrypt" in E:
        ys = [s for s in gen.yescrypt_param_sweep(rng, full=not quick) if s.startswith("$y$") or (s.startswith("$7$") and "scrypt" in E)
              or (s.startswith("$gy$") and "gost_yescrypt" in E)]
        ys += ["$y$j9T$" + gen.ysalt(rng, 22), "$y$.65$" + gen.ysalt(rng, 4), "$y$/65/.$" + gen.ysalt(rng, 4), "$y$/65$" + gen.ysalt(rng, 8)]
        per["yescrypt_params"] = [(gen.rand_phrase(rng, rng.choice((0, 5, 40, 200))), s) for s in ys]
    allreq = [(m, ph, s) for m, rq in per.items() for (ph, s) in rq]
    cmds = ["cfs 1", "logpc 1", "obj 0 0 0"] + ["crypt_rn 0 %s %s 32768" % (hx(ph), hx(s)) for (_, ph, s) in allreq]
    evs = [e for e in ctx.run_xcv(cmds) if e.get("e") in ("crypt_rn", "Fault")]
    calls = [e for e in evs if e.get("e") == "crypt_rn"]
    if len(calls) != len(allreq):
        faults = [e for e in evs if e.get("e") == "Fault"]
        if len(calls) + len(faults) != len(allreq) or not faults:
            raise Broken("script pass lost calls")
        # a request of the pass never returned: the published algorithm yields a value for it
        for e in faults:
            ctx.violation("C04", "Fault: a request of the script pass never returned", compact(e))
        return [], 0
    chunks = {}
    for e in calls:
        e["yprev"] = 0
    for (m, ph, s), e in zip(allreq, calls):
        if m == "yescrypt_params":
            e["cfs"] = {"k": "flat", "c": []}              # only the parameter / schedule facts are judged here
        elif m == "gost_yescrypt":
            e["cfs"] = {"k": "flat", "c": [c for c in e.get("cfs", []) if c["a"] == "streebog"]}
        elif m == "sunmd5" or len(e.get("cfs", [])) > 600:
            to_instances(e)
        else:
            e["cfs"] = {"k": "flat", "c": e.get("cfs", [])}
        chunks.setdefault(m, []).append(e)
    names = list(chunks)
    # large traces: split the heavy methods further
    parts = []
    for m in names:
        if m == "gost_yescrypt":
            ch = chunks[m]
            for i in range(0, len(ch), 8):
                part = ch[i:i + 8]
                for j in range(1, len(part), 2):
                    part[j]["yprev"] = j          # 1-based index of the $y$ call just before
                parts.append((m, part))
            continue
        step = (1 if m == "sunmd5" else 3) if m in ("sha512crypt", "sha256crypt", "sunmd5", "md5crypt") else 40
        if m == "yescrypt_params":
            step = 25
        for i in range(0, len(chunks[m]), step):
            parts.append((m, chunks[m][i:i + step]))
    vs = ctx.validate_many([p[1] for p in parts], "TraceScripts.tla", "TraceScripts.cfg", "scr", par=6, timeout=3000)
    for v, (m, ch) in zip(vs, parts):
        for x in v["viol"]:
            ev = ch[x["l"] - 1]
            c = compact({k: val for k, val in ev.items() if k not in ("cfs",)})
            ctx.violation(x["p"], "%s failed for %s (phrase of %d bytes)" % (x["n"], m, ev.get("pl", -1)), c)
    return vs, sum(v["cnt"]["calls"] for v in vs)


@prop("C02")
def c02(ctx):
    quick = ctx.tier == "quick"
    cfgev = config_event(ctx)
    E = cfgev["E"]
    # fixed corpus (seed-independent): covered by the committed golden table
    fixed = c02_corpus(random.Random(20260927), E, quick, True)
    seeded = c02_corpus(ctx.rng, E, True, False) if os.path.exists(RELEASED_LIB) else []
    golden_path = os.path.join(vlib.VERIF, "golden", "released-%s.ndjson" % ("quick" if quick else "thorough"))
    cmds = ["obj 0 0 0"] + ["crypt_rn 0 %s %s 32768" % (hx(ph), hx(s)) for (ph, s) in fixed + seeded]
    rel = []
    src = "golden"
    if os.path.exists(RELEASED_LIB):
        b = ctx.build("hooks")
        r = subprocess.run([os.path.join(b, "xcv"), RELEASED_LIB], input=("\n".join(cmds) + "\n").encode(), capture_output=True, timeout=1800)
        rel = [json.loads(x) for x in r.stdout.decode().splitlines() if x.startswith('{"e":"crypt_rn"')]
        if len(rel) != len(fixed) + len(seeded):
            raise Broken("released library run lost calls (%d of %d)" % (len(rel), len(fixed) + len(seeded)))
        src = "released libcrypt.so.1 (live)"
        if os.environ.get("XCV_WRITE_GOLDEN"):
            with open(golden_path, "w") as f:
                for e in rel[:len(fixed)]:
                    f.write(json.dumps({"ph": e["ph"], "s": e["s"], "out": e["out"], "outk": e["outk"], "ret": e["ret"]}, separators=(",", ":")) + "\n")
        # the committed table must agree with the live released library
        if os.path.exists(golden_path):
            g = [json.loads(x) for x in open(golden_path)]
            bad = [i for i, (a, e) in enumerate(zip(g, rel)) if a["out"] != e["out"] or a["s"] != e["s"] or a["ph"] != e["ph"]]
            if bad or len(g) != len(fixed):
                raise Broken("golden table %s is stale (%d rows differ)" % (golden_path, len(bad)))
    else:
        if not os.path.exists(golden_path):
            raise Broken("neither the released library nor a golden table is available")
        for a in (json.loads(x) for x in open(golden_path)):
            rel.append({"e": "crypt_rn", "o": 0, "al": 0, "pl": len(a["ph"]) // 2, "ph": a["ph"], "pnull": 0, "s": a["s"], "snull": 0,
                        "size": SIZEOF, "errno": 0, "ret": a["ret"], "szero": 1, "ssame": 0, "prezero": 1, "appsame": 1, "outsame": 0, "rz": 1,
                        "leakobj": 0, "out": a["out"], "outk": a["outk"], "sw": [], "led": [], "nreq": 0, "liveheap": 0, "livemap": 0, "badfree": 0,
                        "wipes": 0, "wiped": 0, "leakfree": 0, "leakunmap": 0, "stackhits": 0, "hlive": 0})
    for e in rel:
        e["rel"] = 1
        e["o"] = 50               # a different object: its abstract state is not mixed with the tree's
    ev = ctx.run_xcv(cmds)
    v = judge(ctx, rel + ev, "rel", cfgev)
    # published-algorithm half: the method's script (Scripts.tla) evaluated by TLC on (phrase, setting) --
    # completely for the DES family, over the compression graph observed in the call for the digest-based methods
    sv, nscript = c02_scripts(ctx, E, quick)
    attribute(ctx)
    cov = mc_coverage(ctx, 1, 1, [v], ev, {"corpus_fixed": len(fixed), "corpus_seeded": len(seeded), "released_source": src,
                                         "script_calls_evaluated_by_tlc": nscript,
                                         "scripted_methods": ["descrypt", "bigcrypt", "bsdicrypt", "md5crypt", "sha256crypt", "sha512crypt", "sunmd5", "sha1crypt", "nt",
                                                              "gost_yescrypt (outer layer)", "bcrypt* (key expansion)",
                                                              "yescrypt/scrypt/gost-yescrypt (parameter decoding, salt, smix schedule)"],
                                         "predicates": ["Released: byte-identical to the released libcrypt.so.1 4.4.33 on the corpus",
                                                        "Script: equals the published algorithm evaluated by TLC (Scripts.tla)"]})
    cov["states"] = v["tlc"].get("distinct", 1)
    cov["transitions"] = v["tlc"].get("generated", 1)
    sdiv = [x["d"] for s_ in sv for x in s_.get("div", [])]
    cov["script_model_divergences"] = {k: sdiv.count(k) for k in sorted(set(sdiv))}
    cov["model_divergences"] += len(sdiv)
    return "model_checking", cov, ASSUME_COMMON + ["the released libxcrypt 4.4.33 is a conforming implementation of the published algorithms "
                                                    "(NEWS records no hashing change since); the numeric cores are not specified in TLA+ (DESIGN.md section 8)"]


# ============================================================================= primitives: C16, C17
def run_prim(ctx, cmds, flavour="hooks", timeout=900):
    b = ctx.build(flavour)
    exe = os.path.join(b, "prim")
    if not os.path.exists(exe):
        r = subprocess.run(["gcc", "-O1", "-g", "-w", "-DHAVE_CONFIG_H", "-DXCRYPT_VERIF", "-I" + os.path.join(b, "inc"), "-I" + os.path.join(vlib.REPO, "lib"),
                            "-o", exe, os.path.join(vlib.VERIF, "harness", "prim.c"), "-L" + b, "-lxcv", "-Wl,-rpath," + b],
                           capture_output=True, text=True)
        if r.returncode != 0:
            raise vlib.BuildFailed("prim", r.stderr[-3000:])
    r = subprocess.run([exe], input=("\n".join(cmds) + "\n").encode(), capture_output=True, timeout=timeout)
    evs = [json.loads(x) for x in r.stdout.decode().splitlines() if x.startswith("{")]
    if r.returncode != 0:
        evs.append({"e": "Fault", "sig": r.returncode, "cmd": r.stderr.decode(errors="replace")[-800:].replace('"', "'")})
    return evs


def judge_prim(ctx, events, tag, par=8, chunk=400):
    chunks = [events[i:i + chunk] for i in range(0, len(events), chunk)] or [[]]
    vs = ctx.validate_many(chunks, "TracePrim.tla", "TracePrim.cfg", tag, par=par)
    for v, ch in zip(vs, chunks):
        for x in v["viol"]:
            ev = ch[x["l"] - 1]
            c = {k: (bytes(val).hex() if isinstance(val, list) and val and all(isinstance(z, int) and 0 <= z < 256 for z in val) and k != "chunks" else val)
                 for k, val in ev.items() if k not in ("cfs", "facts")}
            ctx.violation(x["p"], "%s failed (%s %s)" % (x["n"], ev.get("e"), ev.get("alg", "")), c)
    return vs


def splits(rng, n, mode):
    if mode == "one" or n == 0:
        return [n]
    if mode == "two":
        k = rng.randrange(0, n + 1)
        return [k, n - k]
    parts, left = [], n
    while left > 0 and len(parts) < 40:
        k = rng.choice((0, 1, 2, 3, 7, 31, 32, 33, 63, 64, 65, 127, 128, 129, rng.randrange(1, 300)))
        k = min(k, left)
        parts.append(k)
        left -= k
    if left:
        parts.append(left)
    return parts


@prop("C16")
def c16(ctx):
    quick = ctx.tier == "quick"
    rng = ctx.rng
    mc = []
    for cfg in ("DigestMC.cfg", "DigestMC2.cfg"):
        r = ctx.tlc("DigestMC.tla", cfg, workers=4, timeout=600)
        if r["violated"] or not r["ok"]:
            raise Broken("DigestMC %s: %s" % (cfg, r["violated"]))
        mc.append(r)
    algs = ["md4", "md5", "sha1", "sha256", "sha512", "gost256", "gost512"]
    if quick:
        lens = sorted({n for b in (0, 64, 128, 192, 256, 384, 512, 640, 1024) for n in range(max(0, b - 10), b + 11)} | {1100, 1099})
    else:
        lens = list(range(0, 1101))
    cmds = []
    for a in algs:
        for n in lens:
            msg = bytes(rng.randrange(256) for _ in range(n))
            modes = ["one", "two", "multi"] if (quick and n % 2 == 0) or not quick else ["two"]
            for mode in modes:
                sp = splits(rng, n, mode)
                cmds.append("digest %s %s %s %d" % (a, msg.hex() or "=", ",".join(map(str, sp)), rng.randrange(16)))
        # every two-way split point of a few messages around the block boundaries
        for n in ((63, 64, 65, 130) if quick else (55, 56, 63, 64, 65, 111, 112, 119, 127, 128, 129, 200)):
            msg = bytes(rng.randrange(256) for _ in range(n))
            for k in range(0, n + 1):
                cmds.append("digest %s %s %d,%d %d" % (a, msg.hex(), k, n - k, k % 8))
        # contents that exercise counter carries (Streebog's 512-bit N and Sigma, long runs of 0xff)
        for n in (64, 80, 128, 129, 192, 256):
            for fill in (0xff, 0x00, 0x80):
                cmds.append("digest %s %s %d 0" % (a, bytes([fill]) * n and (bytes([fill]) * n).hex(), n))
            m = bytes([0] * 7 + [0x80] + [0] * 56 + [0] * 7 + [0x80] + [0xff] * (n - 72)) if n >= 80 else None
            if m:
                cmds.append("digest %s %s %d 0" % (a, m.hex(), len(m)))
    ev1 = run_prim(ctx, cmds)
    # MACs and PBKDF2
    cmds2 = []
    for alg, klens in (("sha1", range(0, 201)), ("sha256", range(0, 201)), ("gost256", range(32, 65))):
        for kl in (klens if not quick else [k for k in klens if k % 7 == 0 or k in (63, 64, 65, 127, 128, 129, 199, 200, 32, 33)]):
            for ml in ((0, 1, 20, 64, 200) if not quick else (rng.choice((0, 1, 20)), rng.choice((55, 64, 200)))):
                cmds2.append("hmac %s %s %s" % (alg, bytes(rng.randrange(256) for _ in range(kl)).hex() or "=",
                                                bytes(rng.randrange(256) for _ in range(ml)).hex() or "="))
    for kl in ((0, 1, 32, 63, 64, 65, 100, 200) if quick else range(0, 201, 3)):
        for ml in (0, 1, 55, 56, 64, 65, 130, 300):
            key, msg = bytes(rng.randrange(256) for _ in range(kl)), bytes(rng.randrange(256) for _ in range(ml))
            cmds2.append("hmacs %s %s %s" % (key.hex() or "=", msg.hex() or "=", ",".join(map(str, splits(rng, ml, rng.choice(("one", "two", "multi")))))))
    for dk in (range(1, 101) if not quick else (1, 31, 32, 33, 63, 64, 65, 96, 100)):
        for c in ((1, 2, 50) if not quick else (1, rng.choice((2, 3, 7)))):
            sl = rng.choice(list(range(0, 130)))
            pl = rng.choice((0, 1, 10, 63, 64, 65, 100))
            cmds2.append("pbkdf2 %s %s %d %d" % (bytes(rng.randrange(256) for _ in range(pl)).hex() or "=",
                                                 bytes(rng.randrange(256) for _ in range(sl)).hex() or "=", c, dk))
    # the c == 1, dkLen % 32 == 0 fast path over every salt-length residue mod 64
    for sl in (range(0, 130) if not quick else list(range(40, 70)) + [0, 1, 115, 116, 127, 128]):
        cmds2.append("pbkdf2 %s %s 1 %d" % (bytes(rng.randrange(256) for _ in range(rng.choice((5, 64, 70)))).hex(),
                                            bytes(rng.randrange(256) for _ in range(sl)).hex() or "=", rng.choice((32, 64, 96))))
    # long derived keys: the block counter INT(i) beyond 8, 16 (and, thorough, 17) bits; selected blocks are judged
    for dkl, sel in ((257 * 32 + 5, "1,2,255,256,257,258"), (65537 * 32 + 32, "1,255,256,257,65535,65536,65537,65538")) + \
            (() if quick else ((131073 * 32, "65536,65537,131071,131072,131073"),)):
        for sl in (8, 20, 52, 60):
            cmds2.append("pbkdf2sel %s %s 1 %d %s" % (bytes(rng.randrange(256) for _ in range(9)).hex(), bytes(rng.randrange(256) for _ in range(sl)).hex(), dkl, sel))
    cmds2.append("pbkdf2sel %s %s 2 %d %s" % (bytes(rng.randrange(256) for _ in range(9)).hex(), bytes(rng.randrange(256) for _ in range(16)).hex(), 300 * 32, "1,255,256,257,300"))
    ev2 = run_prim(ctx, cmds2)
    vs = judge_prim(ctx, ev1, "dg", par=12, chunk=150) + judge_prim(ctx, ev2, "mac", par=8, chunk=100)
    attribute(ctx)
    tot = {k: sum(v["cnt"][k] for v in vs) for k in ("digest", "hmac", "pbkdf2")}
    smp = [{k: (bytes(val).hex()[:80] if isinstance(val, list) and val and k != "chunks" and all(isinstance(z, int) and 0 <= z < 256 for z in val) else val)
            for k, val in e.items() if k not in ("cfs", "facts")} for e in (ev1[:2] + ev2[:1])]
    cov = {"states": sum(r["distinct"] for r in mc), "transitions": sum(r["generated"] for r in mc),
           "traces_validated_against_impl": len(vs), "samples": smp, "events_judged": tot,
           "message_lengths": len(lens), "algorithms": algs, "tlc_runs": ctx.tlc_runs[:4],
           "compress_applications_observed": sum(len(e.get("cfs", [])) for e in ev1),
           "predicates": ["Digest = standard construction over the observed compression graph, for every chunking/alignment used",
                          "Hmac (RFC 2104 over digest facts)", "Pbkdf2 (RFC 8018 over PRF facts)", "CtxErased (C09)",
                          "model: streaming machine refines Split(Pad(msg)) for all chunkings (DigestMC, B=4/L=1, B=6/L=2)"]}
    return "model_checking", cov, ["the per-block compression functions are learned from the execution, not specified (DESIGN.md section 8); "
                                   "they are pinned by the repository's vectors and by C02's released-library table",
                                   "HMAC/PBKDF2 facts are evaluated with the library's own digest/PRF (validated by the digest events)"]


@prop("C17")
def c17(ctx):
    quick = ctx.tier == "quick"
    rng = ctx.rng
    r = ctx.tlc("DesMC.tla", "DesMC.cfg", workers=4, timeout=600)
    if r["violated"] or not r["ok"]:
        raise Broken("DesMC: %s" % r["violated"])
    cmds = []

    def rb(n):
        return bytes(rng.randrange(256) for _ in range(n))
    w1 = [bytes([(1 << (7 - (i % 8))) if j == i // 8 else 0 for j in range(8)]) for i in range(64)]
    w63 = [bytes(b ^ 0xff for b in x) for x in w1]
    for k in w1 + w63:
        cmds.append("des %s 0 1 %s 0" % (k.hex(), rb(8).hex()))
    for bl in w1 + w63:
        cmds.append("des %s 0 1 %s %d" % (rb(8).hex(), bl.hex(), rng.randrange(2)))
    for _ in range(300 if quick else 6000):
        cmds.append("des %s 0 1 %s %d" % (rb(8).hex(), rb(8).hex(), rng.randrange(2)))
    salts = [0, 1, 2, 0x800, 0xfff, 0x1000, 0x800000, 0xffffff] + [1 << i for i in range(24)] + [rng.randrange(1 << 24) for _ in range(40 if quick else 400)]
    for s in salts:
        cmds.append("des %s %d %d %s %d" % (rb(8).hex(), s, rng.choice((1, 1, 2, 3, 25)), rb(8).hex(), rng.randrange(2)))
    for cnt in (0, 1, 2, 5, 25, 26, 100, 725):
        cmds.append("des %s %d %d %s 0" % (rb(8).hex(), rng.randrange(1 << 24), cnt, "0000000000000000"))
    # one context keyed twice, starting from junk: degenerate second keys (all zero, parity bits only, all ones) and
    # salt 0 must fully replace what the first key and salt left behind
    for k in (bytes.fromhex(h) for h in ("fefefefefefefefe", "1f1f1f1f0e0e0e0e", "e0e0e0e0f1f1f1f1", "01fe01fe01fe01fe", "e0fee0fef1fef1fe", "1e1e1e1e0f0f0f0f")):
        cmds.append("des %s 0 1 %s 0" % (k.hex(), rb(8).hex()))
        cmds.append("des %s 0 1 %s 1" % (k.hex(), rb(8).hex()))
    zero, par, ones = bytes(8), bytes([1] * 8), bytes([0xff] * 8)
    for k2 in (zero, par, ones, bytes([0x80] * 8), zero, rb(8), rb(8)):
        for s in (0, 0, 1, 0xffffff, rng.randrange(1 << 24)):
            cmds.append("desseq %s %s %d %d %s" % (rb(8).hex(), k2.hex(), s, rng.choice((1, 25)), rb(8).hex()))
    ev1 = run_prim(ctx, cmds)
    # the obsolete API: low bit only, 0/1 results, _r vs static, interleaved with crypt calls
    x = ["obj 0 0 0", "obj 1 5 0"]
    # DES's weak and semi-weak keys (all round keys equal / two alternating): legal keys like any other, with every parity spelling
    special = [bytes.fromhex(h) for h in ("0101010101010101", "fefefefefefefefe", "1f1f1f1f0e0e0e0e", "e0e0e0e0f1f1f1f1", "ffffffffffffffff", "0000000000000000",
                                          "1e1e1e1e0f0f0f0f", "e1e1e1e1f0f0f0f0", "01fe01fe01fe01fe", "fe01fe01fe01fe01", "1fe01fe00ef10ef1", "e01fe01ff10ef10e",
                                          "01e001e001f101f1", "e001e001f101f101", "1ffe1ffe0efe0efe", "fe1ffe1ffe0efe0e", "011f011f010e010e", "1f011f010e010e01",
                                          "e0fee0fef1fef1fe", "fee0fee0fef1fef1")]
    nspecial = len(special)
    # an object re-keyed with the SAME key after something else used or overwrote it (a hashing call through the same
    # object, the caller recycling the memory): setkey_r must build the schedule again, whatever it did last time
    for o in (0, 1):
        for wipe in ("crypt_r %d %s %s" % (o, hx(b"pw"), hx("$1$abc")), "crypt_rn %d %s %s 32768" % (o, hx(b"pw"), hx("ab")),
                     "crypt_r %d %s %s" % (o, hx(b"pw"), hx("*0")), "scribble %d all %d" % (o, rng.randrange(1, 60)),
                     "xcrypt_r %d %s %s" % (o, hx(b"pw"), hx("_/...abcd"))):
            k = rb(8)
            x += ["setkey_r %d %s 0" % (o, k.hex()), "encrypt_r %d %s 0 0" % (o, rb(8).hex()), wipe,
                  "setkey_r %d %s 0" % (o, k.hex()), "encrypt_r %d %s 0 0" % (o, rb(8).hex()), "encrypt_r %d %s 1 0" % (o, rb(8).hex())]
    for k in (rb(8), bytes(8)):
        x += ["setkey - %s 0" % k.hex(), "encrypt - %s 0 0" % rb(8).hex(), "crypt - %s %s" % (hx(b"pw"), hx("ab")), "setkey - %s 0" % k.hex(),
              "encrypt - %s 0 0" % rb(8).hex(), "setkey_r 0 %s 0" % k.hex(), "setkey - %s 0" % k.hex(), "encrypt_r 0 %s 0 0" % rb(8).hex(), "encrypt - %s 1 0" % rb(8).hex()]
    for i in range((120 if quick else 1500) + nspecial):
        k, b = (special[i] if i < nspecial else rb(8)), rb(8)
        noise = rng.choice((0, 0, 3, 17))
        r_ = rng.random()
        if r_ < 0.45:
            o = rng.randrange(2)
            x.append("setkey_r %d %s %d" % (o, k.hex(), noise))
            if rng.random() < 0.3:
                x.append(noise_cmds(rng, ["md5crypt", "descrypt", "sha256crypt"]))    # other objects / statics only
            x.append("encrypt_r %d %s 0 %d" % (o, b.hex(), noise))
            x.append("encrypt_r %d %s %d %d" % (o, b.hex(), rng.choice((1, 1, 2, 3, 4, 256, -1, -2, 2147483647, -2147483648)), rng.choice((0, 9))))
        else:
            x.append("setkey - %s %d" % (k.hex(), noise))
            if rng.random() < 0.6:
                x.append(rng.choice(("crypt - %s %s" % (hx(b"pw"), hx(rng.choice(("ab", "$1$abc", "_/...abcd", "$5$rounds=1000$x")))),
                                     "crypt_rn 0 %s %s 32768" % (hx(b"pw"), hx("xy")), "gensalt %s 0 - 0" % hx("$1$"),
                                     "crypt - %s %s" % (hx(b"pw"), hx("*0")))))
            x.append("encrypt - %s 0 %d" % (b.hex(), noise))
            if rng.random() < 0.5:
                x.append("crypt - %s %s" % (hx(b"other"), hx("cd")))
            x.append("encrypt - %s %d 0" % (b.hex(), rng.choice((1, 2, 3, 256, -2, -2147483648))))
    ev2 = ctx.run_xcv(x)
    # the generated lookup tables, entry by entry, against their definitions in terms of the FIPS tables
    tb = des_tables(ctx)
    vs = judge_prim(ctx, ev1, "des", par=12, chunk=120) + judge_prim(ctx, ev2, "api", par=4, chunk=2000)
    attribute(ctx)
    cov = {"states": r["distinct"], "transitions": r["generated"], "traces_validated_against_impl": len(vs),
           "samples": [e for e in ev1[:2]] + [compact(e) for e in ev2 if e.get("e") == "encrypt"][:1],
           "des_blocks_evaluated_by_tlc": sum(v["cnt"]["des"] for v in vs), "api_calls_judged": sum(v["cnt"]["api"] for v in vs),
           "table_check": tb, "tlc_runs": ctx.tlc_runs[:3],
           "predicates": ["DesBlock = Des!CryptBlock (FIPS 46-3 + crypt(3) salt/iteration)", "ApiDes, Bits01 (low bit only, 0/1 results)",
                          "model laws: DecInvertsEnc, ParityIgnored, Complement, SaltZero, Sample"]}
    return "model_checking", cov, ["Des.tla's tables are FIPS 46-3's (cross-checked at authoring time against the classic vectors and the released library)"]


def des_tables(ctx):
    """every entry of the generated lookup tables against its FIPS-derived definition (DesTables.tla)"""
    ev = run_prim(ctx, ["destables"])
    tr, vf = os.path.join(ctx.dir, "destab.ndjson"), os.path.join(ctx.dir, "destab.verdict.json")
    with open(tr, "w") as f:
        for e in ev:
            f.write(json.dumps(e, separators=(",", ":")) + "\n")
    res = ctx.tlc("DesTables.tla", "DesTables.cfg", env={"XCV_TRACE": tr, "XCV_VERDICT": vf}, workers=1, timeout=900)
    if not os.path.exists(vf):
        raise Broken("DesTables produced no verdict:\n" + res["out"][-1500:])
    v = json.load(open(vf))
    if v["consumed"] != v["lines"] or v["entries"] < 29000:
        raise Broken("DES table dump incomplete: %s" % v)
    for bad in v["bad"][:10]:
        ctx.violation("C17", "lookup table entry differs from its FIPS 46-3 definition", bad)
    return {"entries_checked": v["entries"], "bad": len(v["bad"]), "exhaustive": True}


# ============================================================================= C20
ABI_PROBE = r'''
#include <crypt.h>
#include <stddef.h>
#include <stdio.h>
#define O(f) printf("\"%s\":%zu,\"sz_%s\":%zu,", #f, offsetof(struct crypt_data, f), #f, sizeof(((struct crypt_data*)0)->f))
#define C(n) printf("\"%s\":%ld,", #n, (long)(n))
int main(void){
 printf("{\"layout\":{"); O(output); O(setting); O(input); O(reserved); O(initialized); O(internal);
 printf("\"sizeof\":%zu},\"constants\":{", sizeof(struct crypt_data));
 C(CRYPT_OUTPUT_SIZE); C(CRYPT_MAX_PASSPHRASE_SIZE); C(CRYPT_GENSALT_OUTPUT_SIZE); C(CRYPT_DATA_RESERVED_SIZE); C(CRYPT_DATA_INTERNAL_SIZE);
 C(CRYPT_SALT_OK); C(CRYPT_SALT_INVALID); C(CRYPT_SALT_METHOD_DISABLED); C(CRYPT_SALT_METHOD_LEGACY); C(CRYPT_SALT_TOO_CHEAP);
 C(CRYPT_GENSALT_IMPLEMENTS_DEFAULT_PREFIX);
 printf("\"CRYPT_GENSALT_IMPLEMENTS_AUTO_ENTROPY\":%ld}}\n", (long)CRYPT_GENSALT_IMPLEMENTS_AUTO_ENTROPY);
 return 0; }
'''


@prop("C20")
def c20(ctx):
    quick = ctx.tier == "quick"
    rng = ctx.rng
    b = ctx.build("so")
    # facts: exported (symbol, version) pairs with addresses; layout and constants from the tree's own header
    out = subprocess.run(["readelf", "--dyn-syms", "-W", os.path.join(b, "libxcv.so")], capture_output=True, text=True).stdout
    exports = []
    for ln in out.splitlines():
        p = ln.split()
        if len(p) >= 8 and p[6] != "UND" and "@" in p[7] and not p[7].startswith("_crypt_"):
            name = p[7]
            sym, ver = (name.split("@@") + [None])[:2] if "@@" in name else name.split("@")
            exports.append({"sym": sym, "ver": ver, "def": 1 if "@@" in name else 0, "addr": p[1]})
    src = os.path.join(ctx.dir, "abiprobe.c")
    open(src, "w").write(ABI_PROBE)
    r = subprocess.run(["gcc", "-I" + os.path.join(b, "inc"), "-o", os.path.join(ctx.dir, "abiprobe"), src], capture_output=True, text=True)
    if r.returncode != 0:
        # a header that no longer provides a released name is itself an interface break
        ctx.violation("C20", "released <crypt.h> names missing: the probe does not compile", {"stderr": r.stderr[-1500:]})
        facts = {"exports": exports, "layout": {}, "constants": {}}
    else:
        facts = json.loads(subprocess.run([os.path.join(ctx.dir, "abiprobe")], capture_output=True, text=True).stdout)
        facts["exports"] = exports
    mk = open(os.path.join(vlib.REPO, "Makefile")).read() if os.path.exists(os.path.join(vlib.REPO, "Makefile")) else ""
    mm = re.search(r"^COMPAT_ABI = (\S+)", mk, re.M)
    facts["compat_abi"] = mm.group(1) if mm else "yes"
    # the other compatibility flavours (--enable-obsolete-api=glibc|alt|owl|suse): what the tree's own generators emit
    # for each -- the linker version script and the symver macros -- judged against Abi!MapFor
    def gen_script(tool, abi, smin, floor, pre=()):
        r_ = subprocess.run(["perl", os.path.join(vlib.REPO, "build-aux/scripts", tool)] + list(pre) +
                            ["SYMVER_MIN=" + smin, "SYMVER_FLOOR=" + floor, "COMPAT_ABI=" + abi, os.path.join(vlib.REPO, "lib/libcrypt.map.in")],
                            capture_output=True, text=True, env=dict(os.environ, LC_ALL="C"))
        if r_.returncode != 0:
            ctx.violation("C20", "%s fails for COMPAT_ABI=%s SYMVER_FLOOR=%s" % (tool, abi, floor), {"stderr": r_.stderr[-800:]})
        return r_.stdout
    facts["maps"], facts["symvers"] = {}, {}
    # every platform: the port's first glibc (any GLIBC node of the %chain) as floor; and --disable-obsolete-api
    glibc_chain = ["GLIBC_2.0", "GLIBC_2.2", "GLIBC_2.2.1", "GLIBC_2.2.2", "GLIBC_2.2.5", "GLIBC_2.2.6", "GLIBC_2.3", "GLIBC_2.4", "GLIBC_2.12", "GLIBC_2.16",
                   "GLIBC_2.17", "GLIBC_2.18", "GLIBC_2.21", "GLIBC_2.27", "GLIBC_2.29", "GLIBC_2.32", "GLIBC_2.33", "GLIBC_2.35", "GLIBC_2.36", "GLIBC_2.38"]
    configs = [(a, "GLIBC_2.0", f) for a in ("yes", "glibc", "alt", "owl", "suse") for f in glibc_chain] + [("no", "XCRYPT_2.0", "XCRYPT_2.0")]
    for (abi, smin, floor) in configs:
        pairs, node = [], None
        for ln in gen_script("gen-libcrypt-map", abi, smin, floor).splitlines():
            mm_ = re.match(r"^([A-Z_]+[0-9.]+) \{", ln)
            if mm_:
                node = mm_.group(1)
            elif ln.startswith("}"):
                node = None
            elif node and re.match(r"^    [a-z_]+;$", ln):
                pairs.append([ln.strip().rstrip(";"), node])
        facts["maps"]["%s/%s" % (abi, floor)] = pairs
        facts["symvers"]["%s/%s" % (abi, floor)] = [[m_.group(1), m_.group(2)] for m_ in
                                 re.finditer(r'symver_(?:default|compat0?) \((?:\d+, )?"([a-z_]+)", .*?([A-Z_]+[0-9.]+)\)', gen_script("gen-crypt-symbol-vers-h", abi, smin, floor, ("yes",)))]
    ff, vf = os.path.join(ctx.dir, "abifacts.json"), os.path.join(ctx.dir, "abiverdict.json")
    json.dump(facts, open(ff, "w"))
    res = ctx.tlc("Abi.tla", "Abi.cfg", env={"XCV_FACTS": ff, "XCV_VERDICT": vf}, workers=1, timeout=300)
    if not os.path.exists(vf):
        raise Broken("Abi.tla produced no verdict:\n" + res["out"][-2000:])
    v = json.load(open(vf))
    for k, what in (("missing", "released (symbol, version) no longer exported"),
                    ("layout", "struct crypt_data layout differs from the released header"), ("constants", "public constant changed value")):
        if v[k]:
            ctx.violation("C20", what, {k: v[k], "facts": {kk: facts.get(kk) for kk in ("layout", "constants")}})
    for x in v.get("flavour_missing", []):
        ctx.violation("C20", "a library configured --enable-obsolete-api=<flavour>/<platform floor> = %s would not export %s@%s (%s)" % (x[0], x[2], x[3], x[1]), {"flavour/floor": x[0], "where": x[1], "sym": x[2], "ver": x[3]})
    if min(len(p_) for p_ in facts["maps"].values()) < 9 or min(len(p_) for p_ in facts["symvers"].values()) < 9:
        raise Broken("the generated version scripts / symver macros were not parsed: %s" % {k: len(p_) for k, p_ in facts["maps"].items()})
    # C20 asks that the compatibility symbols BEHAVE as their modern counterparts (judged below through every released
    # binding); that they are the very same address is how the released library does it, not part of the property
    alias_div = sorted(map(sorted, v["alias"])) if v["alias"] else []
    # behavioural half: an old binary's view -- every symbol bound at its released version node, hard-coded released layout
    cfgev = config_event(ctx, "so")
    behs = behaviours(ctx, 20 if quick else 150)
    script = concretize(ctx, behs, cfgev["E"])
    extra = ["reset", "obj 0 3 2", "obj 1 0 1"]
    for i in range(40 if quick else 400):
        k, bl = bytes(rng.randrange(256) for _ in range(8)), bytes(rng.randrange(256) for _ in range(8))
        o = rng.randrange(2)
        if rng.random() < 0.5:
            extra.append("scribble %d all %d" % (o, rng.randrange(1, 90)))       # recycled memory: setkey_r must not depend on it
        extra += ["setkey_r %d %s %d" % (o, k.hex(), rng.choice((0, 5))), "encrypt_r %d %s 0 0" % (o, bl.hex()),
                  "encrypt_r %d %s %d 0" % (o, bl.hex(), rng.choice((1, 2, -1, 256))),
                  "setkey - %s 0" % k.hex(), "encrypt - %s 0 0" % bl.hex()]
    for m in cfgev["E"]:
        s = cheap_setting(m, rng)
        extra += ["checksalt %s" % hx(s), gs_cmd("gensalt_r", gen.PREFIX[m], 0, bytes(rng.randrange(256) for _ in range(20))),
                  gs_cmd("xgensalt_r", gen.PREFIX[m], 0, bytes(rng.randrange(256) for _ in range(20))),
                  gs_cmd("xgensalt", gen.PREFIX[m], 0, bytes(rng.randrange(256) for _ in range(20)))]
    # the compat entry points of crypt_gensalt_rn with byte counts around the limits of narrower integer types
    for pfx in ("$6$", "$y$", "$2b$", "$md5", "_", ""):
        rb = bytes(rng.randrange(256) for _ in range(300))
        for nrb in ("255", "256", "257", "300", "-1", "-256", "65552"):
            for fn in ("gensalt_rn", "gensalt_r", "xgensalt_r"):
                extra.append(gs_cmd(fn, pfx, 0, rb if not nrb.startswith("6") else rb * 220, nrb))
    allx, allg, allp = [], [], []
    for ver in (None, "GLIBC_2.2.5", "XCRYPT_2.0"):
        evs = ctx.run_xcv(script + extra, flavour="so", env=({"XCV_SYMVER": ver} if ver else {}))
        allx += evs + [{"e": "Reset"}]
    v1 = judge(ctx, allx, "abi", cfgev)
    vp = judge_prim(ctx, [e for e in allx if e.get("e") in ("setkey_r", "setkey", "encrypt_r", "encrypt", "obj", "scribble", "Reset", "crypt_rn", "crypt_r", "xcrypt_r")], "abides", par=2, chunk=100000)
    vg = judge_gs(ctx, [e for e in allx if e.get("e") in vlib.GS], "abigs", cfgev)
    attribute(ctx)
    for (p, what, payload) in list(ctx.violations):
        if p in ("C07", "C17", "C18", "C10", "C05", "C04") and p != "C20":
            ctx.violations.append(("C20", "old-binary view: " + what, payload))
    cov = mc_coverage(ctx, 2, 2, [v1], allx, {"exported_pairs": v["exported"], "released_pairs": v["released"],
                                            "version_nodes_bound": ["default", "GLIBC_2.2.5", "XCRYPT_2.0"],
                                            "compat_flavours_generated_and_judged": v.get("flavour_pairs", {}),
                                            "flavour_x_platform_configurations_judged": v.get("configs"), "pairs_required_over_all_configurations": v.get("config_pairs"),
                                            "des_api_calls": sum(x["cnt"]["api"] for x in vp), "gensalt_calls": sum(x["cnt"]["calls"] for x in vg),
                                            "compat_symbols_not_sharing_their_counterparts_address (divergence, behaviour is judged)": alias_div,
                                            "predicates": ["Released subset-of Exported", "Layout", "Constants",
                                                           "same results through every released version node (learned function)"]})
    return "model_checking", cov, ["Abi.tla's constants were extracted once from the released <crypt.h> and libcrypt.so.1 (4.4.33)",
                                   "the private build uses the repository's generated version script (plus _crypt_* exports), not libtool"]


# ============================================================================= C19
NAMED_GROUPS = {"strong": ["yescrypt", "gost_yescrypt", "scrypt", "bcrypt", "bcrypt_y", "bcrypt_a", "sha512crypt"],
                "glibc": ["sha512crypt", "sha256crypt", "md5crypt", "descrypt"],
                "freebsd": ["bcrypt", "bcrypt_a", "sha512crypt", "sha256crypt", "md5crypt", "nt", "bsdicrypt", "descrypt"],
                "netbsd": ["bcrypt", "bcrypt_a", "sha1crypt", "md5crypt", "bsdicrypt", "descrypt"],
                "openbsd": ["bcrypt", "bcrypt_a", "md5crypt", "bsdicrypt", "descrypt"],
                "solaris": ["bcrypt", "bcrypt_a", "sha512crypt", "sha256crypt", "sunmd5", "md5crypt", "descrypt"],
                "osx": ["bsdicrypt", "descrypt"], "owl": ["bcrypt", "bcrypt_y", "bcrypt_a", "bcrypt_x"],
                "suse": ["bcrypt", "bcrypt_y", "bcrypt_a", "bcrypt_x"], "alt": ["yescrypt", "gost_yescrypt", "bcrypt", "bcrypt_y", "bcrypt_a", "bcrypt_x"],
                "debian": ["yescrypt"]}


def c19_script(rng):
    """the same requests for every configuration: every method's settings, prefixes and checks"""
    cmds = ["obj 0 0 0", "preferred"]
    g = []
    for m in gen.METHODS:
        sets = [cheap_setting(m, rng) for _ in range(2)]
        if m in ("yescrypt", "gost_yescrypt"):
            # the classic and WORM flavours of the $y$ encoding share code with $7$: they must not depend on scrypt being selected
            sets += [gen.yparams_full(gen.PREFIX[m], fl, 6, 5) + gen.ysalt(rng, 8) for fl in (".", "/")] + [gen.yparams_full(gen.PREFIX[m], ".", 6, 5, p=2) + gen.ysalt(rng, 8)]
        if m in ("bigcrypt", "descrypt"):
            sets += [gen.salt(rng, 2) + gen.salt(rng, 11), gen.salt(rng, 2) + gen.salt(rng, 22), gen.salt(rng, 2) + gen.salt(rng, 10)]
        for s in sets:
            for ph in (b"short", b"a-phrase-longer-than-eight", gen.rand_phrase(rng, 8), gen.rand_phrase(rng, 9)):
                cmds.append("crypt_rn 0 %s %s 32768" % (hx(ph), hx(s)))
            cmds.append("checksalt %s" % hx(s))
        cmds.append("crypt - %s %s" % (hx(b"pw"), hx(sets[0])))
        cmds.append("crypt_ra 0 %s %s" % (hx(b"pw"), hx(sets[0])))
        # the same requests on junk-filled, misaligned objects: a method that is reached directly in one selection and
        # only through a forwarding method in another (descrypt behind bigcrypt) must not depend on the scratch contents
        for ph in (b"abc", b"short", b"a-phrase-longer-than-eight"):
            for fill in (2, 3):
                cmds.append("obj 1 %d %d" % (rng.randrange(1, 16), fill))
                cmds.append("%s 1 %s %s" % (rng.choice(("crypt_rn", "crypt_r")), hx(ph), hx(sets[0])))
        rb = bytes(rng.randrange(256) for _ in range(24))
        for c in (0, CHEAP_COUNT.get(m, [0])[0], 99):
            g.append(gs_cmd("gensalt_rn", gen.PREFIX[m], c, rb))
        g.append(gs_cmd("gensalt", gen.PREFIX[m], 0, None))
        g.append(gs_cmd("gensalt_rn", gen.PREFIX[m], 0, rb, "len", 14))
        g.append(gs_cmd("gensalt_rn", gen.PREFIX[m], 0, rb, "len", 15))
    rb = bytes(rng.randrange(256) for _ in range(24))
    g += [gs_cmd("gensalt_rn", None, 0, rb), gs_cmd("gensalt_ra", None, 0, None), gs_cmd("gensalt_rn", "$9$", 0, rb)]
    return cmds, g


@prop("C19")
def c19(ctx):
    quick = ctx.tier == "quick"
    rng = ctx.rng
    r = ctx.tlc("Config.tla", "Config_edge.cfg" if quick else "Config.cfg", workers=8, timeout=1800)
    if r["violated"] or not r["ok"]:
        raise Broken("Config.tla: %s\n%s" % (r["violated"], r["out"][-1500:]))
    ALL = list(gen.METHODS)
    sels = [["bigcrypt"], ["gost_yescrypt"], ["scrypt"], ["descrypt"], [m for m in ALL if m != "descrypt"], [m for m in ALL if m != "yescrypt"],
            [m for m in ALL if m != "scrypt"], NAMED_GROUPS["glibc"], ["md5crypt", "nt"], ["yescrypt"], ["bcrypt_x", "bcrypt_a"], ["sha512crypt", "bigcrypt", "descrypt"], [m for m in ALL if m not in ("yescrypt", "bcrypt", "sha512crypt")]]
    if not quick:
        sels = [[m] for m in ALL] + [[x for x in ALL if x != m] for m in ALL] + list(NAMED_GROUPS.values())
        for _ in range(24):
            k = rng.randrange(2, 15)
            sels.append(rng.sample(ALL, k))
    cmds, g = c19_script(rng)
    full_x = [e for e in ctx.run_xcv(cmds) if "ph" in e]
    for e in full_x:
        e["rel"] = 1              # the full build's graph is the reference for every enabled method
        e["o"] = 60
    nviol0 = len(ctx.violations)
    from concurrent.futures import ThreadPoolExecutor

    def one(i_sel):
        i, sel = i_sel
        fl = "cfg:" + ",".join(sorted(sel))
        try:
            ctx.build(fl)
        except vlib.BuildFailed as bf:
            return (sel, "build", bf.log[-1500:], None, None)
        ce = config_event(ctx, fl)
        ex = ctx.run_xcv(cmds, flavour=fl)
        eg = ctx.run_xcv(g, flavour=fl)
        return (sel, "ok", ce, ex, eg)
    with ThreadPoolExecutor(max_workers=6) as pool:
        results = list(pool.map(one, enumerate(sels)))
    verd, nx = [], 0
    allev = []
    for (sel, st, ce, ex, eg) in results:
        tag = "c" + "_".join(sorted(sel))[:40] + str(len(sel))
        if st == "build":
            ctx.violation("C19", "the library does not build for this selection", {"selection": sorted(sel), "log": ce})
            continue
        if sorted(ce["E"]) != sorted(sel):
            # the generated crypt-hashes.h switches on a method that was not selected (or drops a selected one)
            ctx.violation("C19", "[%s] the generated configuration enables %s" % (",".join(sorted(sel)), sorted(ce["E"])),
                          {"selection": sorted(sel), "INCLUDE_macros": sorted(ce["E"])})
            ce = dict(ce)
            ce["E"] = sorted(sel)          # the calls below are judged against what was asked for
        before = len(ctx.violations)
        evs = [ce] + [dict(e) for e in full_x] + ex
        annotate(evs)
        v = ctx.validate_trace(evs, tag=tag)
        for x in v["viol"]:
            ev = evs[x["l"] - 1]
            if ev.get("rel"):
                continue
            ctx.violation("C19", "[%s] %s failed (%s)" % (",".join(sorted(sel)), x["n"], ev.get("e")), compact(ev))
        for x in v["div"]:
            ev = evs[x["l"] - 1]
            if ev.get("rel") or x["d"] == "errno":
                continue
            ctx.violation("C19", "[%s] the selection's behaviour differs from the specification for E: %s" % (",".join(sorted(sel)), x["d"]), compact(ev))
        annotate_gs(eg)
        for e in eg:
            for kk in ("gprev", "sprev", "s192", "fprev", "nprev"):
                if e.get(kk):
                    e[kk] += 1
        vg = ctx.validate_trace([ce] + eg, "TraceGensalt.tla", "TraceGensalt.cfg", tag + "g")
        for x in vg["viol"] + vg["div"]:
            ev = ([ce] + eg)[x["l"] - 1]
            ctx.violation("C19", "[%s] gensalt: %s" % (",".join(sorted(sel)), x.get("n") or x.get("d")), compact(ev))
        verd.append(v)
        allev += ex
    cov = mc_coverage(ctx, r["distinct"], r["generated"], verd, allev,
                      {"selections_modelled": r["distinct"], "selections_built": len(sels), "selections": [",".join(sorted(s)) for s in sels][:80],
                       "requests_per_selection": len(cmds) + len(g),
                       "predicates": ["builds", "disabled prefix refused like an unknown one (crypt, checksalt, gensalt)", "enabled method = full build (learned graph)",
                                      "default prefix / crypt_preferred_method / CRYPT_GENSALT_IMPLEMENTS_DEFAULT_PREFIX", "Config.tla invariants over the subsets"]})
    cov["traces_validated_against_impl"] = len(verd)
    cov["model_divergences"] = 0        # for C19 every divergence of a selection is reported as a violation (none remained)
    return "model_checking", cov, ASSUME_COMMON + ["configurations are built with the repository's generators (gen-crypt-hashes-h, gen-crypt-h), not by re-running configure"]


# ============================================================================= C08
SPEC_STATICS = {"nr_crypt_ctx.0": "crypt()'s data object", "output.0": "crypt_gensalt()'s buffer", "nr_encrypt_ctx": "setkey()/encrypt() schedule",
                "buf.0": "yescrypt() non-reentrant helper", "buf.1": "yescrypt_encode_params() non-reentrant helper", "digest.0": "non-reentrant yescrypt helper",
                "hash_algorithms": "dispatch table (relocated read-only)", "test_hashes.2": "bcrypt self-test pointers (relocated read-only)",
                "completed.0": "crt", "magic.0": "const pointer", "magic.1": "const pointer", "hexconvtab.0": "const pointer", "_crypt_verif_sink": "hook sink (TLS)"}
REENTRANT = ["crypt_r", "crypt_rn", "crypt_ra", "crypt_gensalt_rn", "crypt_gensalt_ra", "crypt_checksalt", "crypt_preferred_method"]
EVENT2FN = {"crypt_r": "crypt_r", "xcrypt_r": "crypt_r", "crypt_rn": "crypt_rn", "crypt_ra": "crypt_ra", "gensalt_rn": "crypt_gensalt_rn",
            "gensalt_r": "crypt_gensalt_rn", "xgensalt_r": "crypt_gensalt_rn", "gensalt_ra": "crypt_gensalt_ra", "checksalt": "crypt_checksalt",
            "crypt": "crypt", "fcrypt": "crypt", "xcrypt": "crypt", "gensalt": "crypt_gensalt", "xgensalt": "crypt_gensalt"}


def mt_events(raw, pad):
    """convert mt.c records into TraceXCrypt hash events"""
    out = []
    for e in raw:
        if e["e"] in ("crypt_r", "crypt_rn", "crypt_ra"):
            succ = (not e["null"]) and e["out"] and e["out"][0] != 42
            ev = dict(pad)
            ev.update({"e": "crypt_rn" if e["e"] == "crypt_ra" else e["e"], "mt": 1, "o": 200 + e["t"], "pl": len(e["a"]), "ph": bytes(e["a"]).hex(),
                       "pnull": 0, "s": e["s"], "snull": 0, "errno": e["errno"], "ret": "out" if (succ or (e["e"] == "crypt_r" and not e["null"])) else "null",
                       "out": e["out"] if not e["null"] else [42, 48], "outk": "str", "via": e["e"], "t": e["t"]})
            out.append(ev)
    return out


@prop("C08")
def c08(ctx):
    quick = ctx.tier == "quick"
    rng = ctx.rng
    cfgev = config_event(ctx)
    E = cfgev["E"]
    b = ctx.build("hooks")
    # (i) inventory of writable static storage of the fresh build against the specification's list
    syms = [ln.split()[2] for ln in open(os.path.join(b, "syms.txt")) if ln.strip()]
    unknown = [s for s in syms if s not in SPEC_STATICS]
    imports = subprocess.run(["nm", "-D", "--undefined-only", os.path.join(b, "libxcv.so")], capture_output=True, text=True).stdout
    sync = [x for x in re.findall(r"U (\w+)", imports) if x.startswith(("pthread_mutex", "pthread_rwlock", "pthread_once", "__cxa_guard", "call_once", "mtx_"))]
    nonreentrant_libc = [x for x in re.findall(r"U (\w+)", imports) if x.split("@")[0] in ("strtok", "rand", "srand", "random", "getpwnam", "localtime", "gmtime", "asctime", "ctime", "strerror", "setlocale", "getenv", "crypt", "ttyname")]
    # (ii) write footprints: every API call of every method with static storage snapshotted around it, and
    #      (iii) every re-entrant call again with the library's writable segments mapped read-only
    cmds = ["obj 0 0 0", "hset 0 0 0"]
    lens = (3, 9, 65, 130) if quick else (0, 1, 8, 9, 20, 64, 65, 66, 128, 129, 200, 511)
    for m in E:
        for n in lens:
            ph, s = gen.rand_phrase(rng, n), cheap_setting(m, rng)
            for fnc in ("crypt_rn 0 %s %s 32768", "crypt_r 0 %s %s", "crypt_ra 0 %s %s", "crypt - %s %s"):
                cmds.append(fnc % (hx(ph), hx(s)))
        cmds.append("crypt_rn 0 %s %s 32768" % (hx(b"pw"), hx(METHFAIL.get(m) or "$9$")))
        cmds.append("checksalt %s" % hx(cheap_setting(m, rng)))
        for c in (0, 99):
            cmds += [gs_cmd("gensalt_rn", gen.PREFIX[m], c, None), gs_cmd("gensalt_ra", gen.PREFIX[m], c, bytes(rng.randrange(256) for _ in range(24))),
                     gs_cmd("gensalt", gen.PREFIX[m], c, None)]
    cmds += ["preferred", "setkey - 0123456789abcdef 0", "encrypt - 0011223344556677 0 0"]
    # a working region above the huge-page threshold (32 MiB): its allocation path is different code
    if "yescrypt" in E:
        cmds += ["crypt_rn 0 %s %s 32768" % (hx(b"big-region"), hx("$y$jC5$abcd")), "crypt_ra 0 %s %s" % (hx(b"big-region"), hx("$y$jC5$abcd"))]
    ev1 = ctx.run_xcv(cmds)
    ev2 = ctx.run_xcv(["wprot 1"] + cmds)
    measured = {f: set() for f in set(EVENT2FN.values())}
    measured["crypt_preferred_method"] = set()
    for e in ev1 + ev2:
        f = EVENT2FN.get(e.get("e"))
        if f:
            measured[f] |= set(e.get("sw", []))
    for e in ev2:
        if e.get("e") == "Fault" and e.get("wprot"):
            f = EVENT2FN.get(e.get("cmd", "").split(" ")[0], "crypt_r")
            measured[f].add("written-under-write-protection")
    fpfile = os.path.join(ctx.dir, "footprints.json")
    json.dump({f: sorted(v) for f, v in measured.items()}, open(fpfile, "w"))
    # the model with the measured footprints: all interleavings of the re-entrant interfaces
    r1 = ctx.tlc("Threads.tla", "Threads_re.cfg", env={"XCV_FOOTPRINTS": fpfile}, workers=8, timeout=900)
    if r1["violated"]:
        if sync:
            ctx.notes.append("the library imports synchronisation primitives %s: a static write is no longer by itself a race" % sync)
        else:
            ctx.violation("C08", "with the measured footprints the model has a data race / wrong result (%s)" % r1["violated"],
                          {"footprints": {f: sorted(v) for f, v in measured.items() if v and f in REENTRANT}})
    elif not r1["ok"]:
        raise Broken("Threads.tla failed:\n" + r1["out"][-1500:])
    # non-vacuity: the same model with the non-reentrant crypt()/crypt_gensalt() must exhibit the documented race
    r2 = ctx.tlc("Threads.tla", "Threads_witness.cfg", env={"XCV_FOOTPRINTS": fpfile}, workers=4, timeout=300)
    if not r2["violated"]:
        raise Broken("witness configuration found no race: the model is not exploring interleavings")
    v1 = judge(ctx, ev1 + [{"e": "Reset"}] + ev2, "fp", cfgev)
    vg = judge_gs(ctx, [e for e in ev1 + ev2 if e.get("e") in vlib.GS], "fpgs", cfgev)
    # (iv) real schedules: the requests once alone, then from N threads at once
    reqs = []
    for m in E:
        for n in ((5, 70) if quick else (1, 9, 65, 70, 129)):
            reqs.append((rng.choice(("crypt_r", "crypt_rn", "crypt_ra")), gen.rand_phrase(rng, n, eightbit=False), cheap_setting(m, rng)))
    base = ctx.run_xcv(["obj 0 0 0"] + ["crypt_rn 0 %s %s 32768" % (hx(ph), hx(s)) for (_, ph, s) in reqs])
    pad = next(dict(e) for e in base if e.get("e") == "crypt_rn")
    for k in ("kprev", "oprev", "hprev", "dprev", "bprev"):
        pad.pop(k, None)
    mtexe = ctx.build_tool("hooks", "mt.c", "mt")
    script = "".join("%s %s %s\n" % (fn, ph.hex() or "=", s.encode("latin-1").hex() or "=") for (fn, ph, s) in reqs)
    mtev = []
    for nth in ((2, 8) if quick else (2, 4, 16)):
        r = subprocess.run([mtexe, os.path.join(b, "libxcv.so"), str(nth), str(3 if quick else 12)], input=script.encode(), capture_output=True, timeout=1200)
        if r.returncode != 0:
            ctx.violation("C08", "the multi-threaded driver crashed (signal/exit %d)" % r.returncode, {"threads": nth, "stderr": r.stderr.decode(errors="replace")[-800:]})
            continue
        mtev += mt_events([json.loads(x) for x in r.stdout.decode().splitlines() if x.startswith("{")], pad)
    v2 = judge(ctx, base + mtev, "mt", cfgev)
    # (v) ThreadSanitizer build of the same driver
    tsan_note = "not run"
    try:
        bt = ctx.build("tsan")
        mtt = os.path.join(bt, "mt")
        rr = subprocess.run(["gcc", "-O1", "-g", "-fsanitize=thread", "-o", mtt, os.path.join(vlib.VERIF, "harness", "mt.c"), "-ldl", "-lpthread"], capture_output=True, text=True)
        if rr.returncode == 0:
            r = subprocess.run([mtt, os.path.join(bt, "libxcv.so"), "4", "2"], input=script.encode(), capture_output=True, timeout=1200,
                               env=dict(os.environ, TSAN_OPTIONS="halt_on_error=0 exitcode=66 report_signal_unsafe=0"))
            rep = r.stderr.decode(errors="replace")
            nrace = rep.count("WARNING: ThreadSanitizer: data race")
            tsan_note = "%d data race reports" % nrace
            if nrace:
                inlib = [ln for ln in rep.splitlines() if "/repo/lib/" in ln or "libxcv.so" in ln][:6]
                ctx.violation("C08", "ThreadSanitizer: data race inside the library under concurrent re-entrant calls", {"reports": nrace, "frames": inlib})
        else:
            tsan_note = "tsan harness did not build"
    except vlib.BuildFailed:
        tsan_note = "tsan flavour did not build"
    attribute(ctx)
    for (p, what, payload) in list(ctx.violations):
        if p in ("C04",) and what.startswith("Confined") and payload.get("sw"):
            ctx.violations.append(("C08", "a re-entrant function wrote static storage: " + what, payload))
    cov = mc_coverage(ctx, r1.get("distinct", 1), r1.get("generated", 1), [v1, v2], ev1 + mtev[:3],
                      {"writable_statics_in_build": syms, "statics_unknown_to_spec (divergence, snapshotted anyway)": unknown,
                       "synchronisation_imports": sync, "non_reentrant_libc_imports": nonreentrant_libc,
                       "measured_footprints": {f: sorted(v) for f, v in measured.items()},
                       "calls_under_write_protection": sum(1 for e in ev2 if EVENT2FN.get(e.get("e")) in REENTRANT),
                       "concurrent_calls_judged": len(mtev), "tsan": tsan_note, "witness_race_found": bool(r2["violated"]),
                       "predicates": ["model NoRace/AsIfAlone over all interleavings with measured footprints", "no write to static storage under write protection",
                                      "AsIfAlone on real schedules (learned function)", "TSan reports"]})
    return "model_checking", cov, ["real schedules are sampled; the exhaustive part is on the model, whose only code-dependent input (footprints) is measured",
                                   "non-interference: calls that write no shared location are equivalent to some sequential order"]


# ============================================================================= the repository's own tests, recorded
KA_CHEAP = ["ka-md5crypt", "ka-descrypt", "ka-bigcrypt", "ka-bsdicrypt", "ka-nt", "ka-sha1crypt", "ka-sha256crypt", "badsalt", "checksalt",
            "special-char-salt", "short-outbuf", "crypt-badargs"]
KA_ALL = KA_CHEAP + ["ka-sha512crypt", "ka-sunmd5", "ka-bcrypt", "ka-bcrypt-a", "ka-bcrypt-x", "ka-bcrypt-y", "ka-yescrypt", "ka-scrypt", "ka-gost-yescrypt"]
PAD = {"al": 0, "rz": 1, "leakobj": 0, "sw": [], "led": [], "nreq": 0, "liveheap": 0, "livemap": 0, "badfree": 0, "wipes": 0, "wiped": 0,
       "leakfree": 0, "leakunmap": 0, "stackhits": 0, "hlive": 0}


def recorded_repo_tests(ctx, names, flavour="hooks"):
    """Run the repository's own (already built) test programs against the fresh library under the LD_PRELOAD
    recorder; returns the recorded API calls as TraceXCrypt events (empty if the test programs are absent)."""
    b = ctx.build(flavour)
    rec = os.path.join(b, "preload.so")
    if not os.path.exists(rec):
        r = subprocess.run(["gcc", "-O1", "-g", "-shared", "-fPIC", "-o", rec, os.path.join(vlib.VERIF, "harness", "preload.c"), "-ldl"], capture_output=True, text=True)
        if r.returncode != 0:
            raise Broken("preload recorder did not build: " + r.stderr[-800:])
    link = os.path.join(b, "libcrypt.so.1")
    if not os.path.exists(link):
        os.symlink("libxcv.so", link)
    events, ran = [], []
    for t in names:
        exe = os.path.join(vlib.REPO, "test", ".libs", t)
        if not os.path.exists(exe):
            continue
        outp = os.path.join(ctx.dir, "pre_%s.ndjson" % t)
        if os.path.exists(outp):
            os.unlink(outp)
        try:
            subprocess.run([exe], capture_output=True, timeout=600,
                           env=dict(os.environ, LD_PRELOAD=rec, LD_LIBRARY_PATH=b, XCV_PRELOAD_OUT=outp))
        except subprocess.TimeoutExpired:
            continue
        if not os.path.exists(outp):
            continue
        evs = []
        for x in open(outp):
            try:
                e = json.loads(x)
            except ValueError:
                continue
            if "ph" in e:
                for k, v in PAD.items():
                    e.setdefault(k, v)
            evs.append(e)
        events += [{"e": "Reset"}] + evs
        ran.append((t, len(evs)))
    return events, ran
