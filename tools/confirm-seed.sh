#!/bin/bash
# confirm-seed.sh <X01> : in /tmp/mut-<X01> run each demo on the pristine tree, apply OUT/mN.diff, make check, run the demo again, revert;
# one line per change in /tmp/confirm/<X01>.log (base_exit=0 suite_pass=47 suite_fail=0 mut_exit=1 is what a kept change needs)
P=$1; D=/tmp/mut-$P; cd $D || exit 2
mkdir -p /tmp/confirm; L=/tmp/confirm/$P.log; : > $L
git checkout -q -- . ; make -j4 >/dev/null 2>&1
for m in m1 m2; do
  [ -f OUT/$m.diff ] || { echo "$P $m NO-DIFF" >> $L; continue; }
  cmd=$(python3 -c "import json;print(json.load(open('OUT/notes.json'))['$m']['demo_cmd'])" 2>/dev/null)
  [ -n "$cmd" ] || cmd=$(grep -h -m1 -o 'gcc .*' OUT/${m}_demo.c | head -1)
  cmd="${cmd%%   (*}"          # drop explanatory prose after the command
  echo "$P $m cmd: $cmd" >> $L
  ( eval "$cmd" ) > /tmp/confirm/$P.$m.base.out 2>&1; base=$?
  git apply OUT/$m.diff || { echo "$P $m APPLY-FAILED" >> $L; continue; }
  make -j4 check > /tmp/confirm/$P.$m.check.out 2>&1
  pass=$(grep -c '^PASS' /tmp/confirm/$P.$m.check.out); fail=$(grep -c '^FAIL\|^ERROR' /tmp/confirm/$P.$m.check.out)
  ( eval "$cmd" ) > /tmp/confirm/$P.$m.mut.out 2>&1; mut=$?
  git checkout -q -- . ; make -j4 >/dev/null 2>&1
  echo "$P $m base_exit=$base suite_pass=$pass suite_fail=$fail mut_exit=$mut" >> $L
done
echo "$P DONE" >> $L
