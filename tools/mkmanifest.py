#!/usr/bin/env python3
"""Regenerates /verif/MANIFEST.json from the table below (one source of truth for the interface)."""
import json, os, sys
V = os.path.dirname(os.path.dirname(os.path.abspath(__file__)))
sys.path.insert(0, os.path.join(V, "tools"))

CHECKS = {
 "C01": ("model_checking", "5/C01",
         "Settings.tla's Parse/canonicalisation laws (Idem, OnlySetting) are checked by TLC on grammar-directed domains; the property's own "
         "equation crypt(P,H)=H and its hash-part-substitution form are evaluated by TLC (TraceXCrypt C_RoundTrip) on calls recorded from the real "
         "library over every setting form the property names x phrase-length classes.",
         "TLC law checking + trace validation of recorded round trips", "inputs are grammar-directed samples (every form, seeded values), costs inside a compute budget"),
 "C03": ("model_checking", "5/C03",
         "TLC checks PhraseKey's window laws on a scaled model; on the real library every byte position of the phrase (single-bit flips, truncation, "
         "extension) and every salt character is perturbed and the trace specification (C_Distinct/C_Same, driven by Settings!Significant) judges that "
         "significant changes change the digest.",
         "TLC trace validation of perturbation grids against the specification's significance function", "collision resistance of the digests is the oracle"),
 "C04": ("other", "5/C04",
         "Write confinement, bounds and crash-freedom are decided by the specification's footprints (TraceXCrypt C_Confined) on every replayed call "
         "(fuzzed and TLC-generated behaviours, objects at all alignments inside guard pages, inputs ending at PROT_NONE pages); undefined behaviour is "
         "observed through an ASan+UBSan build of the same replay, where a report is a Fault event the specification has no action for.",
         "specification footprints on replayed traces + sanitizer substrate", "UB and uninitialised reads are observed on explored inputs, not model-checked"),
 "C05": ("model_checking", "5/C05",
         "TLC explores the complete reachable graph of the API model (every prior object state x every failing call kind x every size class) for "
         "FailClosed/NoStale/TokenShape/ShortSizes; TLC-generated behaviours are replayed into the real library and the recorded traces are judged by "
         "the same predicates (TraceXCrypt), plus the byte-value x position grid over valid settings of every method.",
         "exhaustive TLC model checking + behaviour replay + trace validation", "abstract classes are represented by seeded concrete values"),
 "C07": ("model_checking", "5/C07",
         "History classes are enumerated completely on the model; on the code every request is issued through crypt/fcrypt/xcrypt/crypt_r/xcrypt_r/"
         "crypt_rn/crypt_ra at all alignments and fills, interleaved with other methods, failures, the DES API and gensalt, and the trace specification "
         "requires each result to equal the first result recorded for that (phrase, setting) (learned function).",
         "TLC model checking + trace validation with a learned result function", "same as C05"),
 "C09": ("model_checking", "5/C09",
         "WipedIffValidated is an invariant of the API model on its full graph; on the code TraceXCrypt judges the scratch projection after every "
         "call (success and every failure kind, dirty objects) and the needle scans (object, freed heap, unmapped regions, -O0 stack) as taint bits "
         "that must be clear; crypt_ra's erase-before-realloc is observed by the interposed allocator.",
         "TLC model checking + trace validation of scratch/taint projections", "needles are 8-byte windows of high-entropy phrases in 7 encodings"),
 "C14": ("model_checking", "5/C14",
         "OneOwner/NoDangling/SizeHonest/GrowErasedFirst are invariants of the heap model on its full graph (all call sequences over a shared handle "
         "from every initial (data,size) class, with failing reallocs); TLC behaviours and systematic sequences are replayed with an allocator ledger "
         "and judged by C_Handle/Grow/GensaltRA.",
         "TLC model checking + ledger-instrumented trace validation", "caller contract: recorded size never exceeds the allocation"),
 "C15": ("fault_enumeration", "5/C15",
         "For every call of a corpus covering all methods and entry points, every allocator/mapping request position (and pairs) is failed in turn; "
         "each faulty call and the following normal call are judged by the fail-closed, wipe and balance predicates of the specification.",
         "exhaustive single-fault enumeration judged by the TLA+ trace specification", "faults injected at the libc interface by interposition"),
 "C10": ("model_checking", "5/C10",
         "Gensalt.tla is a total model of crypt_gensalt_rn; every recorded call (all prefixes incl. NULL, full hashes and unknown tags x counts x "
         "nrbytes 0..256 x three entry points and the compat aliases) is judged by TLC: passwd-safe, tag of the selected method, not rejected by "
         "Checksalt, parses with the generated string as canonical form, deterministic across entry points; every affordable generated setting is "
         "hashed and must be a literal prefix of the hash (TraceXCrypt C_Literal), including crypt(P, crypt_gensalt(...)) with the static pointer.",
         "TLC trace validation against the Gensalt/Settings specifications", "count/nrbytes grids, not all 2^64 values"),
 "C11": ("model_checking", "5/C11",
         "DocCost (written from the man pages only) is compared by TLC with the cost decoded from the implementation's string by an independent "
         "reader (CostIn) for every count 0..40, powers of two and ten +-1 up to 2^64, boundary and random 64-bit values, for every method.",
         "TLC trace validation of the documented cost function", "numeric defaults are model constants"),
 "C12": ("model_checking", "5/C12",
         "TLC judges salt-size laws over nrbytes 0..256, flips every single bit of the supplied bytes and requires every bit the specification "
         "says is consumed to change the result, checks that auto-entropy is drawn through the OS interface (interposed) and that two real draws differ. "
         "The fallback chain of get_random_bytes (build without arc4random_buf) is model-checked (Random.tla) and every history TLC generates for it "
         "is replayed into the real function; a successful salt must encode whole-request bytes delivered by one OS source.",
         "TLC trace validation of bit-flip grids against Gensalt.tla; TLC-generated histories of Random.tla replayed into get_random_bytes", "the significance of a bit is defined by the exact model Gensalt.tla"),
 "C13": ("model_checking", "5/C13",
         "Complete grid of output_size -2..256 (plus large sizes) x prefixes x count classes x nrbytes classes: TLC judges fit, token shape, guard "
         "bytes, errno kind, monotone success, leading-part relation to the 192-byte result, sufficiency of 192 bytes, and absence of aborts.",
         "TLC trace validation of a complete size grid", "count and nrbytes classes as listed in coverage"),
}

NA = {}

CHECKS["C06"] = ("model_checking", "5/C06",
         "Shape(m,h) (crypt(5) grammar per method, fixed digest length, passwd(5)-safe alphabet) is a law of the model on grammar-directed domains "
         "(SettingsLaws.tla) and is evaluated by TLC on every successful result recorded from the real library (all setting forms incl. maximal salts, "
         "output fields holding junk or a longer earlier result); each distinct result is fed back to crypt_checksalt and crypt_gensalt_rn.",
         "TLC law checking + trace validation of recorded results against Shape", "salt-length caps of the man page regexes are not enforced")
CHECKS["C18"] = ("model_checking", "5/C18",
         "TLC enumerates every string over the specification's byte classes up to length 4 (168k strings) and checks the laws Exactly/Classes/CanHash/"
         "TagOnly/ClassInvariance/PreferredOK; the implementation is called on EVERY byte string of length <= 3 (16.9M; printable length 4 in thorough), "
         "aggregated by class, and TLC requires each class to have exactly the specified answer; long strings per tag, all crypt inputs, "
         "crypt_preferred_method and NULL-vs-preferred gensalt pairs are judged by the trace specifications.",
         "TLC exhaustive class enumeration + complete byte-string sweep judged against the specification", "hash selection = the built configuration (other selections: C19)")
CHECKS["C02"] = ("model_checking", "5/C02",
         "Cross-release half: the interpretation of the specification's uninterpreted Hash constructor on a corpus (every phrase-length class that "
         "matters for 64/128-byte blocks and the 16/32/64-byte recycling loops x salt lengths x cost spellings x 8-bit bytes incl. 0x80/0xff x all 16 "
         "methods incl. yescrypt p>1/t>0, scrypt p>1) is the graph of the released libcrypt.so.1 4.4.33, recorded live and frozen in /verif/golden; TLC "
         "(TraceXCrypt C02_Released) requires byte identity. Published-algorithm half: the constructions around the numeric cores (streaming, padding, "
         "HMAC, PBKDF2, DES) are decided by C16/C17's specifications.",
         "TLC trace validation against the released library's graph as specification constant",
         "the numeric cores (compression functions, Blowfish, Salsa20/8, pwxform) are not specified in TLA+; per-method algorithm scripts are future spec growth")
CHECKS["C16"] = ("model_checking", "5/C16",
         "DigestMC.tla: the streaming machine refines Split(Pad(msg)) for every chunking (exhaustive, scaled block sizes). On the code: for every message "
         "length around every block boundary (0..1100 in thorough), one-shot / every two-way split / random multi-way splits / alignments 0..15, TLC "
         "evaluates the standard construction (Digest.tla: padding, length field, IV, word order; Streebog's N and Sigma counters) over the compression "
         "graph observed through the XCRYPT_VERIF hook and requires the digest to match; HMAC-SHA1/SHA256/Streebog (key lengths 0..200) and "
         "PBKDF2-HMAC-SHA256 (dkLen 1..100, c up to 50, all salt residues, fast path) are RFC 2104/8018 constructions over facts.",
         "TLC model checking of the streaming machine + trace validation over a learned compression function",
         "the per-block compression functions themselves are learned, not specified (pinned by the repository's vectors and by C02)")
CHECKS["C17"] = ("model_checking", "5/C17",
         "Des.tla is FIPS 46-3 DES at bit level plus the crypt(3) salt/iteration; TLC checks DecInvertsEnc, ParityIgnored, Complement, SaltZero and "
         "the FIPS sample on the model, and EVALUATES DES on every recorded block: all weight-1/weight-63 keys and blocks, random pairs, encrypt/decrypt, "
         "salts over all 24 bits, iteration counts; setkey/encrypt(_r) traces with noise in the ignored bits, interleaved with crypt/gensalt calls, "
         "are validated with the key tracked per object and for the static area.",
         "TLC evaluation of a bit-level DES specification on recorded traces", "Des.tla's tables are FIPS 46-3's")
CHECKS["C19"] = ("model_checking", "5/C19",
         "Config.tla: TLC takes each of the 65535 non-empty selections as an initial state (edge selections in quick) and checks DefaultIsStrongestEnabled, "
         "DisabledUnreachable, DesPair, EnabledUnchanged, NoDefault on Settings/Gensalt restricted to E. On the code: selections (singletons, leave-one-out, "
         "named groups, random subsets; 10 in quick) are built with the repository's generators and the same request script (every method's settings, "
         "prefixes, checksalt, gensalt incl. NULL, crypt_preferred_method) is judged by the trace specifications instantiated with E; results of enabled "
         "methods must equal the full build's (learned graph); a build failure is a violation.",
         "TLC over all selections + per-configuration builds judged by the E-parameterised trace specifications",
         "configurations are produced by the repository's generator scripts with configure's obsolete-API rule mirrored, not by re-running configure")
CHECKS["C20"] = ("model_checking", "5/C20",
         "Abi.tla holds the released interface (21 (symbol, version) pairs with default-ness, alias classes, struct layout, constants) and judges the facts "
         "dumped from the fresh build (readelf, a probe compiled against the tree's generated header). Behavioural half: TLC-generated behaviours, DES API "
         "sequences on recycled objects, checksalt and the compat gensalt aliases are replayed by an old-binary client (released layout hard-coded, every "
         "symbol bound with dlvsym at GLIBC_2.2.5 / XCRYPT_2.0 / default) and judged by the same trace specifications.",
         "TLC judgement of dumped ABI facts + trace validation through every released version node", "the private build uses the repository's generated version script")
CHECKS["C08"] = ("model_checking", "5/C08",
         "Threads.tla: TLC explores every interleaving of 3 threads x 2 calls of the re-entrant interfaces, split into write and read-back steps over their "
         "footprints, for NoRace and AsIfAlone; the witness configuration with crypt()/crypt_gensalt() must exhibit the documented race. The footprints are "
         "MEASURED on the fresh build: inventory of writable static symbols, write-set of every API call of every method, and every re-entrant call executed "
         "with the library's writable segments mapped read-only (a transient write faults). Real schedules: 2..16 threads with barriers, every result judged "
         "against the alone-run by the learned function; ThreadSanitizer build of the same driver.",
         "TLC model checking of interleavings with footprints measured on the code (write-protected execution) + judged stress traces + TSan",
         "real schedules are sampled; exhaustiveness is on the model")
for p in []:
    NA.setdefault(p, "check under construction in this round (see DESIGN.md section 9); not claimed until its machinery is committed")


def main():
    import props
    checks = []
    for p in sorted(CHECKS):
        if p not in props.REGISTRY:
            continue
        cat, ref, text, tech, note = CHECKS[p]
        checks.append({
            "property_id": p,
            "quick_cmd": "./check %s quick" % p,
            "thorough_cmd": "./check %s thorough" % p,
            "evidence_file": "evidence/%s.json" % p,
            "replay_cmd_template": "./check %s quick --replay {path}" % p,
            "engine": "xcv-tla",
            "level_claimed": {"category": cat, "text": text, "design_ref": ref},
            "level_note": note,
            "technique": tech,
        })
    claimed = {c["property_id"] for c in checks}
    m = {
        "version": 1,
        "setup_cmd": "./tools/setup.sh",
        "hooks": {
            "guard": "XCRYPT_VERIF",
            "enable": "tools/build.sh compiles /repo's working tree with -DXCRYPT_VERIF into a private libxcv.so in scratch",
            "baseline_off_cmd": "make -C /repo -j8 check",
            "source_commits": ["123a50e", "0c7f69d", "7b93172", "4551f94"],
            "add_only": True,
        },
        "engines": [{"name": "xcv-tla", "path": "check",
                     "serves_properties": sorted(claimed),
                     "kind_free_text": "TLA+ specifications (spec/*.tla) checked with TLC; behaviours generated by TLC are replayed into the real "
                                       "library by harness/xcv.c; traces recorded from the real library are judged by TLC trace specifications"}],
        "checks": checks,
        "not_applicable": [{"property_id": p, "reason": r} for p, r in sorted(NA.items()) if p not in claimed],
        "notes": "exit 2 = the check could not run (infrastructure); model divergences never change the exit status (DESIGN.md section 4)",
    }
    json.dump(m, open(os.path.join(V, "MANIFEST.json"), "w"), indent=1)
    print("claimed:", sorted(claimed))


if __name__ == "__main__":
    main()
