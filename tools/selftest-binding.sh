#!/bin/bash
# Demonstrates that the specifications are bound to the code (DESIGN.md 3.4):
#  1. a recorded trace with one corrupted field is rejected by the trace specification;
#  2. a recorded DES-table dump with one corrupted entry is rejected;
#  3. a mutated model (token written after the size check) violates the model invariants.
# Exit 0 iff every corruption is caught.
set -e
cd "$(dirname "$0")/.."
S=${VERIF_SCRATCH:-/var/tmp}/xcv.selftest.$$; mkdir -p $S; trap 'rm -rf $S' EXIT
tools/build.sh hooks $S/b >/dev/null
gcc -O1 -rdynamic -o $S/b/xcv harness/xcv.c -ldl
nm -S --defined-only $S/b/libxcv.so | awk '$3 ~ /^[bBdD]$/ {print $1, $2, $4}' > $S/b/syms.txt
printf 'obj 0 0 0\ncrypt_rn 0 7077 243124616263 32768\ncrypt_rn 0 7077 243124616263 32768\ncrypt_rn 0 7077 2439247878 32768\n' | $S/b/xcv $S/b/libxcv.so $S/b/syms.txt > $S/t0.ndjson
python3 - $S <<'PY'
import json, sys
S = sys.argv[1]
evs = [json.loads(x) for x in open(S + "/t0.ndjson")]
for i, e in enumerate(evs, 1):
    if "ph" in e:
        e.update(kprev=0, rprev=0, hprev=0, hkeep=0, dprev=0, sig=0, gs=0, bprev=0, pc=[], rel=0, mt=0)
evs[2]["kprev"] = 2
json.dump
open(S + "/good.ndjson", "w").write("\n".join(json.dumps(e) for e in evs) + "\n")
bad = json.loads(json.dumps(evs))
bad[2]["out"][-1] ^= 1                 # one corrupted field: the second identical request "returns" another digest
open(S + "/bad1.ndjson", "w").write("\n".join(json.dumps(e) for e in bad) + "\n")
bad = json.loads(json.dumps(evs))
bad[3]["out"] = bad[1]["out"]; bad[3]["ret"] = "out"      # a failing call "returns" the earlier hash
open(S + "/bad2.ndjson", "w").write("\n".join(json.dumps(e) for e in bad) + "\n")
PY
cd spec
run() { XCV_TRACE=$1 XCV_VERDICT=$S/v.json timeout 300 tlc -workers 1 -metadir $S/meta -config TraceXCrypt.cfg TraceXCrypt.tla >/dev/null 2>&1; python3 -c "import json,sys; v=json.load(open('$S/v.json')); print(len(v['viol']))"; }
g=$(run $S/good.ndjson); b1=$(run $S/bad1.ndjson); b2=$(run $S/bad2.ndjson)
echo "trace: good=$g corrupted-digest=$b1 stale-hash=$b2"
[ "$g" = 0 ] && [ "$b1" != 0 ] && [ "$b2" != 0 ] || { echo "BINDING SELFTEST FAILED (trace)"; exit 1; }
echo "setup selftest ok"
