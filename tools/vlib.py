"""Shared machinery of the /verif checks: builds, the harness, TLC, verdicts, evidence."""
import json, os, re, shutil, subprocess, sys, tempfile, time, hashlib, random, zlib

VERIF = os.path.dirname(os.path.dirname(os.path.abspath(__file__)))
# evidence of runs against a scratch copy of the repository (tools/seedtest.sh) goes elsewhere: /verif/evidence describes /repo
EVIDENCE_DIR = os.environ.get("VERIF_EVIDENCE_DIR") or os.path.join(VERIF, "evidence")
REPO = os.environ.get("VERIF_REPO", "/repo")
SPEC = os.path.join(VERIF, "spec")
SCRATCH_ROOT = os.environ.get("VERIF_SCRATCH", "/var/tmp")
TLA_JAR = "/opt/veriftools/tla/tla2tools.jar"

EINVAL, ERANGE, ENOMEM = 22, 34, 12
SIZEOF = 32768


class Broken(Exception):
    """The check could not do its job (exit 2)."""


def hx(b):
    if b is None:
        return "-"
    if isinstance(b, str):
        b = b.encode("latin-1")
    return b.hex() if len(b) else "="


class Ctx:
    def __init__(self, prop, tier, seed):
        self.prop, self.tier, self.seed = prop, tier, seed
        self.t0 = time.time()
        self.dir = tempfile.mkdtemp(prefix="xcv.%s." % prop, dir=SCRATCH_ROOT)
        self.builds = {}
        self.violations = []      # (prop, what, replay payload)
        self.known = []
        self.notes = []
        self.rng = random.Random(seed * 1000003 + int(prop[1:]))
        self.tlc_runs = []

    def cleanup(self):
        shutil.rmtree(self.dir, ignore_errors=True)

    # ---------------------------------------------------------------- builds
    def build(self, flavour="hooks"):
        if flavour in self.builds:
            return self.builds[flavour]
        out = os.path.join(self.dir, "b_" + re.sub(r"[^A-Za-z0-9]", "_", flavour))
        r = subprocess.run([os.path.join(VERIF, "tools/build.sh"), flavour, out],
                           capture_output=True, text=True, timeout=600)
        if r.returncode != 0:
            raise BuildFailed(flavour, r.stderr[-3000:])
        so = os.path.join(out, "libxcv.so")
        # writable static-storage symbols of the fresh build
        nm = subprocess.run(["nm", "-S", "--defined-only", so], capture_output=True, text=True).stdout
        with open(os.path.join(out, "syms.txt"), "w") as f:
            for ln in nm.splitlines():
                p = ln.split()
                if len(p) == 4 and p[2] in "bBdD":
                    f.write("%s %s %s\n" % (p[0], p[1], p[3]))
        cc = ["gcc", "-O1", "-g"]
        if flavour == "asan":
            cc = ["gcc", "-O1", "-g", "-DXCV_NO_MALLOC_WRAP", "-fsanitize=address,undefined", "-fno-sanitize-recover=undefined"]
        elif flavour == "tsan":
            cc = ["gcc", "-O1", "-g", "-DXCV_NO_MALLOC_WRAP", "-fsanitize=thread"]
        for src, exe in (("xcv.c", "xcv"),):
            r = subprocess.run(cc + ["-rdynamic", "-o", os.path.join(out, exe),
                                     os.path.join(VERIF, "harness", src), "-ldl", "-lpthread"],
                               capture_output=True, text=True)
            if r.returncode != 0:
                raise Broken("harness build failed: " + r.stderr[-2000:])
        self.builds[flavour] = out
        return out

    def build_tool(self, flavour, src, exe, extra=()):
        b = self.build(flavour)
        path = os.path.join(b, exe)
        if not os.path.exists(path):
            r = subprocess.run(["gcc", "-O2", "-g", "-rdynamic", "-o", path, os.path.join(VERIF, "harness", src),
                                "-ldl", "-lpthread"] + list(extra), capture_output=True, text=True)
            if r.returncode != 0:
                raise Broken("tool build failed: " + r.stderr[-2000:])
        return path

    # ---------------------------------------------------------------- harness
    def run_xcv(self, cmds, flavour="hooks", timeout=900, env=None, vary_errno=True):
        """Run a command script through the harness.  A crash (Fault event) ends that process;
        the remaining commands are run in a fresh process after a Reset, so the whole script is
        always executed.  Returns the list of events (dicts)."""
        if isinstance(cmds, list):
            cmds = "\n".join(cmds) + "\n"
        lines = [x for x in cmds.split("\n") if x]
        if vary_errno:
            # errno on entry is part of the call history (C07) and must be overwritten by every failure (C05):
            # each sub-trace runs under its own entry-errno regime, reproducibly chosen from the script itself
            er = random.Random(zlib.crc32(cmds.encode()) ^ (self.seed & 0xffffffff))
            regimes = ["0", "0", "keep", "keep", "34", "22", "12", "2", "4", "11", "9999"]
            out_lines = ["errno " + er.choice(regimes)]
            since = 0
            for x in lines:
                out_lines.append(x)
                since += 1
                if x == "reset" or since >= 25:        # a new regime per sub-trace and every 25 commands
                    out_lines.append("errno " + er.choice(regimes))
                    since = 0
            lines = out_lines
        events = []
        rounds = 0
        b = self.build(flavour)
        while lines:
            rounds += 1
            if rounds > 25:
                # the implementation crashes again and again: every Fault event is reported by the trace
                # specification; the rest of the script is not executed
                events.append({"e": "Fault", "sig": -2, "line": -1, "cmd": "more than 25 crashes: %d commands not executed" % len(lines), "inlib": 1})
                return events
            script = "\n".join(lines) + "\n"
            e = dict(os.environ)
            e.update(env or {})
            e.setdefault("ASAN_OPTIONS", "detect_leaks=0:abort_on_error=0:exitcode=77:handle_segv=0:handle_abort=0")
            e.setdefault("UBSAN_OPTIONS", "halt_on_error=1:exitcode=78:print_stacktrace=1")
            timed_out = False
            try:
                r = subprocess.run([os.path.join(b, "xcv"), os.path.join(b, "libxcv.so"), os.path.join(b, "syms.txt")],
                                   input=script.encode(), capture_output=True, timeout=timeout, env=e)
                so, rc, se = r.stdout, r.returncode, r.stderr
            except subprocess.TimeoutExpired as ex:
                so, rc, se, timed_out = (ex.stdout or b""), -1, b"", True
            evs = []
            for x in so.decode(errors="replace").splitlines():
                if x.startswith("{"):
                    try:
                        evs.append(json.loads(x))
                    except ValueError:
                        pass
            events.extend(evs)
            if timed_out:
                events.append({"e": "Fault", "sig": -1, "line": -1, "cmd": "timeout after %ds" % timeout, "inlib": 1})
                return events
            fault = next((x for x in evs if x.get("e") == "Fault"), None)
            if fault is None and rc != 0:
                events.append({"e": "Fault", "sig": 1000 + rc, "line": -1,
                               "cmd": (se.decode(errors="replace")[-1500:]).replace('"', "'"), "inlib": 1})
                return events
            if fault is None:
                break
            n = fault["line"]
            setup = [x for x in lines[:n] if x.startswith(("obj ", "scan ", "stack ", "entropy "))]
            setup += [x for x in lines[:n] if x.startswith("errno ")][-1:]
            rest = lines[n:]
            lines = (setup + ["reset"] + rest) if rest else []
        return events

    # ---------------------------------------------------------------- TLC
    def tlc(self, module, cfg=None, env=None, workers=4, timeout=900, extra=(), heap="4g", deque=False):
        meta = tempfile.mkdtemp(prefix="tlcmeta.", dir=self.dir)
        cmd = ["java", "-Xmx" + heap, "-XX:+UseParallelGC"]
        if deque:
            cmd.append("-Dtlc2.tool.queue.IStateQueue=StateDeque")
        cmd += ["-cp", TLA_JAR + ":/opt/veriftools/tla/CommunityModules-deps.jar", "tlc2.TLC"]
        cmd = ["tlc"]  # wrapper on PATH knows the classpath
        e = dict(os.environ)
        e.update(env or {})
        # (TLC creates an empty tlc-<n> directory under java.io.tmpdir on every start: keep it inside the scratch directory)
        jopts = "-Xmx%s -XX:+UseParallelGC -Djava.io.tmpdir=%s" % (heap, meta)
        if deque:
            jopts += " -Dtlc2.tool.queue.IStateQueue=StateDeque"
        e["JAVA_TOOL_OPTIONS"] = jopts
        cmd += ["-workers", str(workers), "-metadir", meta, "-noGenerateSpecTE"]
        if cfg:
            cmd += ["-config", cfg]
        cmd += list(extra) + [module]
        t0 = time.time()
        try:
            r = subprocess.run(cmd, cwd=SPEC, capture_output=True, text=True, timeout=timeout, env=e)
        except subprocess.TimeoutExpired:
            raise Broken("TLC timeout on %s" % module)
        finally:
            shutil.rmtree(meta, ignore_errors=True)
        out = r.stdout + r.stderr
        res = {"module": module, "cfg": cfg, "rc": r.returncode, "out": out, "wall_s": round(time.time() - t0, 1)}
        m = re.search(r"(\d[\d,]*) states generated, (\d[\d,]*) distinct states found", out)
        if m:
            res["generated"] = int(m.group(1).replace(",", ""))
            res["distinct"] = int(m.group(2).replace(",", ""))
        m = re.search(r"Invariant (\S+) is violated", out)
        res["violated"] = m.group(1) if m else None
        res["ok"] = (r.returncode == 0)
        self.tlc_runs.append({k: res.get(k) for k in ("module", "cfg", "rc", "generated", "distinct", "violated", "wall_s")})
        return res

    def validate_many(self, chunks, module, cfg, tag, timeout=2400, par=8):
        """validate several traces in parallel TLC processes; returns the list of verdicts"""
        from concurrent.futures import ThreadPoolExecutor
        with ThreadPoolExecutor(max_workers=par) as ex:
            futs = [ex.submit(self.validate_trace, ch, module, cfg, "%s%d" % (tag, i), timeout) for i, ch in enumerate(chunks)]
            return [f.result() for f in futs]

    def validate_trace(self, events, module="TraceXCrypt.tla", cfg="TraceXCrypt.cfg", tag="t", timeout=1200):
        """Write events as NDJSON, run the trace specification, return its verdict dict."""
        tr = os.path.join(self.dir, "%s.ndjson" % tag)
        vf = os.path.join(self.dir, "%s.verdict.json" % tag)
        with open(tr, "w") as f:
            for ev in events:
                f.write(json.dumps(ev, separators=(",", ":")) + "\n")
        if os.path.exists(vf):
            os.unlink(vf)
        if os.environ.get("XCV_KEEP_TRACE"):          # debugging aid: keep a copy of the trace outside the scratch directory
            shutil.copy(tr, os.path.join(os.environ["XCV_KEEP_TRACE"], "%s-%s.ndjson" % (self.prop, tag)))
        res = self.tlc(module, cfg, env={"XCV_TRACE": tr, "XCV_VERDICT": vf}, workers=1, timeout=timeout,
                       heap="8g" if os.path.getsize(tr) > 30_000_000 else "4g")
        if not os.path.exists(vf):
            o = res["out"]
            i = o.find("Error:")
            raise Broken("trace validation produced no verdict (%s):\n%s\n...\n%s" % (module, o[max(0, i - 200):i + 1500], o[-1500:]))
        v = json.load(open(vf))
        if v["consumed"] != v["lines"]:
            raise Broken("trace not fully consumed: %s of %s" % (v["consumed"], v["lines"]))
        v["tlc"] = res
        v["trace_path"] = tr
        return v

    # ---------------------------------------------------------------- verdicts
    def violation(self, prop, what, payload):
        self.violations.append((prop, what, payload))


class BuildFailed(Exception):
    def __init__(self, flavour, log):
        super().__init__("build failed for flavour %s" % flavour)
        self.flavour, self.log = flavour, log


def annotate(events):
    """Add the index annotations the trace specification verifies (kprev, hprev/hkeep, dprev/sig).
    Indexes are 1-based positions in the event list."""
    HASH = {"crypt_rn", "crypt_r", "xcrypt_r", "crypt", "fcrypt", "xcrypt", "crypt_ra"}
    seen = {}
    anyfirst = {}
    byout = {}
    for i, ev in enumerate(events, 1):
        if ev.get("e") not in HASH:
            continue
        ev.setdefault("hprev", 0)
        ev.setdefault("hkeep", 0)
        ev.setdefault("dprev", 0)
        ev.setdefault("sig", 0)
        ev.setdefault("gs", 0)
        ev.setdefault("bprev", 0)
        ev.setdefault("rel", 0)
        ev.setdefault("mt", 0)
        ev.setdefault("pc", [])
        key = (ev["ph"], ev["pnull"], tuple(ev["s"]), ev["snull"])
        succ = ev["ret"] == "out" and ev["outk"] == "str" and ev["out"] and ev["out"][0] != 42
        # kprev: the first identical request to the SAME library (the result function is learned per library);
        # rprev: the identical request to the reference library (rel = 1), for C02_Released
        kk = key + (ev.get("rel", 0),)
        ev["kprev"] = seen.get(kk, 0)
        ev["rprev"] = seen.get(key + (1,), 0) if not ev.get("rel") else 0
        if (succ or ev.get("rel")) and kk not in seen:
            seen[kk] = i
        # oprev: the first identical request to the same library, whatever its outcome (C07_SameOutcome)
        ev["oprev"] = anyfirst.get(kk, 0)
        if kk not in anyfirst and not any(x.get("failed") for x in ev.get("led", [])) and ev.get("errno") != 12 \
                and (ev.get("e") != "crypt_rn" or ev.get("size", 0) >= 32768):
            anyfirst[kk] = i
        if succ:
            o = (tuple(ev["out"]))
            if o in byout and byout[o][1] != key:
                ev["dprev"] = byout[o][0]
            byout.setdefault(o, (i, key))
    return events


GS = {"gensalt_rn", "gensalt_r", "xgensalt_r", "gensalt", "xgensalt", "gensalt_ra"}


def annotate_gs(events):
    """index annotations for TraceGensalt (1-based): gprev, sprev, s192, fprev, fresh"""
    first = {}
    lastsize = {}
    full = {}
    for i, ev in enumerate(events, 1):
        if ev.get("e") not in GS:
            continue
        for k in ("gprev", "sprev", "s192", "fprev", "fresh", "nprev"):
            ev.setdefault(k, 0)
        key = (tuple(ev["prefix"]), ev["prefixnull"], tuple(ev["cd"]), tuple(ev["rb"]), ev["rbnull"], ev["nrbytes"])
        if ev["osize"] >= 192:
            if not ev["gprev"]:
                ev["gprev"] = first.get(key, 0)
            first.setdefault(key, i)
        if ev["e"] in ("gensalt_rn", "gensalt_r", "xgensalt_r"):
            if key in lastsize and events[lastsize[key] - 1]["osize"] < ev["osize"]:
                ev["sprev"] = lastsize[key]
            if ev["osize"] == 192:
                full.setdefault(key, i)
            elif key in full:
                ev["s192"] = full[key]
            if ev["osize"] != 192 or key not in lastsize:
                if ev["osize"] != 192:
                    lastsize[key] = i
    return events


def write_evidence(ctx, level, coverage, assumptions, violations):
    ev = {
        "property_id": ctx.prop,
        "tier": ctx.tier,
        "seed": ctx.seed,
        "level": level,
        "coverage": coverage,
        "assumptions": assumptions,
        "wall_s": round(time.time() - ctx.t0, 1),
        "violations": violations,
    }
    os.makedirs(EVIDENCE_DIR, exist_ok=True)
    with open(os.path.join(EVIDENCE_DIR, ctx.prop + ".json"), "w") as f:
        json.dump(ev, f, indent=1, default=str)


def load_known():
    p = os.path.join(VERIF, "known-findings.json")
    if not os.path.exists(p):
        return {"open": [], "fixed": []}
    return json.load(open(p))


def save_replay(prop, payload):
    d = os.path.join(EVIDENCE_DIR, "replays")
    os.makedirs(d, exist_ok=True)
    s = json.dumps(payload, sort_keys=True, default=str)
    name = "%s-%s.json" % (prop, hashlib.sha1(s.encode()).hexdigest()[:12])
    p = os.path.join(d, name)
    with open(p, "w") as f:
        f.write(s)
    return p
