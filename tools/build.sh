#!/bin/bash
# build.sh <flavour> <outdir>
# Compile /repo's *current working tree* into a private shared library <outdir>/libxcv.so that
# keeps the released version nodes but also exports the internal _crypt_* symbols.
# Flavours: hooks (default, -O2 -DXCRYPT_VERIF) | O0 | asan | tsan | so (guard off) |
#           norand (util-get-random-bytes without arc4random_buf) | cfg:<comma list of hashes>
set -euo pipefail
FLAVOUR=${1:-hooks}; OUT=${2:?outdir}
REPO=${VERIF_REPO:-/repo}
mkdir -p "$OUT/inc" "$OUT/obj"
PERL=${PERL:-perl}
S=$REPO/build-aux/scripts
ALL=,bcrypt,bcrypt_a,bcrypt_x,bcrypt_y,bigcrypt,bsdicrypt,descrypt,gost_yescrypt,md5crypt,nt,scrypt,sha1crypt,sha256crypt,sha512crypt,sunmd5,yescrypt,
HASHES=$ALL
CC=gcc; OPT="-O2"; DEFS="-DXCRYPT_VERIF"; EXTRA=""
case "$FLAVOUR" in
  hooks) ;;
  O0) OPT="-O0";;
  so) DEFS="";;
  asan) OPT="-O1 -g -fno-omit-frame-pointer -fsanitize=address,undefined ${XCV_UBSAN_RECOVER:--fno-sanitize-recover=undefined}";;
  tsan) OPT="-O1 -g -fsanitize=thread";;
  norand) EXTRA="norand";;
  noft) EXTRA="noft";;
  cfg:*) HASHES=",${FLAVOUR#cfg:},";;
  *) echo "unknown flavour $FLAVOUR" >&2; exit 2;;
esac
if [ ! -f "$REPO/config.h" ]; then echo "no config.h in $REPO (run configure)" >&2; exit 2; fi
cp "$REPO/config.h" "$OUT/inc/config.h"
# configure.ac: without the traditional DES hash the obsolete APIs (and with them the compat ABI) are off
COMPAT=yes; OBS=1
case "$HASHES" in *,descrypt,*) ;; *) COMPAT=no; OBS=0
  sed -i 's/^#define ENABLE_OBSOLETE_API 1/#define ENABLE_OBSOLETE_API 0/' "$OUT/inc/config.h";; esac
[ "$EXTRA" = noft ] && sed -i 's/^#define ENABLE_FAILURE_TOKENS 1/#define ENABLE_FAILURE_TOKENS 0/' "$OUT/inc/config.h"
export LC_ALL=C
$PERL $S/gen-crypt-hashes-h "$REPO/lib/hashes.conf" "$HASHES" > "$OUT/inc/crypt-hashes.h"
$PERL $S/gen-crypt-symbol-vers-h yes SYMVER_MIN=GLIBC_2.0 SYMVER_FLOOR=GLIBC_2.2.5 COMPAT_ABI=$COMPAT \
      "$REPO/lib/libcrypt.map.in" > "$OUT/inc/crypt-symbol-vers.h"
$PERL $S/gen-crypt-h "$REPO/lib/crypt.h.in" "$OUT/inc/config.h" "$REPO/lib/hashes.conf" "$HASHES" > "$OUT/inc/crypt.h"
$PERL $S/gen-libcrypt-map SYMVER_MIN=GLIBC_2.0 SYMVER_FLOOR=GLIBC_2.2.5 COMPAT_ABI=$COMPAT \
      "$REPO/lib/libcrypt.map.in" > "$OUT/inc/libcrypt.map"
# private version script: same nodes, but nothing is made local
awk '/^[[:space:]]*local:[[:space:]]*$/{skip=1;next} skip&&/^[[:space:]]*\*;[[:space:]]*$/{skip=0; print "    _crypt_*;"; next} {skip=0; print}' "$OUT/inc/libcrypt.map" > "$OUT/inc/libxcv.map"
CFLAGS="$OPT -w -fPIC -DPIC -fno-plt -DHAVE_CONFIG_H -DIN_LIBCRYPT $DEFS -I$OUT/inc -I$REPO/lib"
pids=()
for f in "$REPO"/lib/*.c; do
  b=$(basename "$f" .c)
  case "$b" in gen-des-tables|alg-yescrypt-platform) continue;; esac
  [ "$OBS" = 0 ] && [ "$b" = crypt-des-obsolete ] && continue
  fl="$CFLAGS"
  if [ "$EXTRA" = norand ] && [ "$b" = util-get-random-bytes ]; then
    fl="$CFLAGS -include $OUT/inc/norand.h"
    # the OS primitives of the fallback chain are bound to the harness (harness/xcv.c, xcv_*): a compile-time seam on
    # the unmodified source, so that no process-wide read/open/close/syscall is interposed
    printf '#include "config.h"\n#undef HAVE_ARC4RANDOM_BUF\n#define getentropy xcv_getentropy\n#define getrandom xcv_getrandom\n#define syscall xcv_syscall\n#define open xcv_open\n#define read xcv_read\n#define close xcv_close\n' > "$OUT/inc/norand.h"
  fi
  ( $CC $fl -c "$f" -o "$OUT/obj/$b.o" ) &
  pids+=($!)
done
rc=0; for p in "${pids[@]}"; do wait $p || rc=1; done
[ $rc = 0 ] || { echo "BUILD-FAILED flavour=$FLAVOUR" >&2; exit 3; }
$CC $OPT -shared -o "$OUT/libxcv.so" "$OUT"/obj/*.o -Wl,--version-script="$OUT/inc/libxcv.map" -Wl,-z,defs -lc 2>"$OUT/link.log" \
  || $CC $OPT -shared -o "$OUT/libxcv.so" "$OUT"/obj/*.o -Wl,--version-script="$OUT/inc/libxcv.map" 2>>"$OUT/link.log" \
  || { cat "$OUT/link.log" >&2; echo "BUILD-FAILED link flavour=$FLAVOUR" >&2; exit 3; }
echo "$OUT/libxcv.so"
