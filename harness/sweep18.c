/* sweep18 - calls crypt_checksalt on EVERY byte string of length <= 3 (and, with argv[2] = 4, every
 * printable string of length 4), aggregates the results by class string and prints one NDJSON line per
 * class string: {"e":"csclass","cs":[representative codes],"rs":[distinct results],"n":count}.
 * The classes are the ones the specification (Settings.tla) distinguishes: each character that occurs in
 * a method tag is its own class; other DES-salt characters; other printable characters; forbidden bytes.
 * TLC (TraceXCrypt, event "csclass") then requires rs = <<Checksalt(Enabled, cs)>> for every line. */
#define _GNU_SOURCE
#include <dlfcn.h>
#include <stdio.h>
#include <stdlib.h>
#include <string.h>

typedef int (*checksalt_t) (const char *);
static const char tagchars[] = "$_123567abdghmsxy";
static int cls[256];
static unsigned char rep[32];
static int ncls;

static int
is_des (int c)
{
  return (c >= 'a' && c <= 'z') || (c >= 'A' && c <= 'Z') || (c >= '0' && c <= '9') || c == '.' || c == '/';
}

int
main (int argc, char **argv)
{
  void *lib = dlopen (argv[1], RTLD_NOW);
  if (!lib) { fprintf (stderr, "%s\n", dlerror ()); return 2; }
  checksalt_t f = (checksalt_t) dlsym (lib, "crypt_checksalt");
  if (!f) f = (checksalt_t) dlvsym (lib, "crypt_checksalt", "XCRYPT_4.3");
  if (!f) { fprintf (stderr, "no crypt_checksalt\n"); return 2; }
  int maxlen = argc > 2 ? atoi (argv[2]) : 3;
  /* classes: 0 = bad, 1..17 = tag chars, 18 = other DES salt char, 19 = other printable */
  ncls = 0;
  rep[ncls++] = ':';
  for (size_t i = 0; tagchars[i]; i++) rep[ncls++] = (unsigned char) tagchars[i];
  int c_des = ncls; rep[ncls++] = 'Q';
  int c_oth = ncls; rep[ncls++] = '#';
  for (int b = 1; b < 256; b++)
    {
      const char *t = strchr (tagchars, b);
      if (b <= 0x20 || b >= 0x7f || strchr ("!*:;\\", b)) cls[b] = 0;
      else if (t) cls[b] = 1 + (int) (t - tagchars);
      else if (is_des (b)) cls[b] = c_des;
      else cls[b] = c_oth;
    }
  /* table indexed by class string in base (ncls+1), 0 = end */
  size_t base = (size_t) ncls + 1, tabsz = 1;
  for (int i = 0; i < 4; i++) tabsz *= base;
  unsigned char *mask = calloc (tabsz, 1);
  unsigned *cnt = calloc (tabsz, sizeof (unsigned));
  unsigned char s[8];
  for (int len = 0; len <= maxlen; len++)
    {
      int lo = len <= 3 ? 1 : 0x21, hi = len <= 3 ? 255 : 0x7e;
      unsigned long total = 1;
      for (int i = 0; i < len; i++) total *= (unsigned long) (hi - lo + 1);
      for (unsigned long k = 0; k < total; k++)
        {
          unsigned long x = k;
          size_t idx = 0, mul = 1;
          for (int i = 0; i < len; i++)
            {
              s[i] = (unsigned char) (lo + (int) (x % (unsigned long) (hi - lo + 1)));
              x /= (unsigned long) (hi - lo + 1);
              idx += (size_t) (cls[s[i]] + 1) * mul;
              mul *= base;
            }
          s[len] = 0;
          int r = f ((const char *) s);
          mask[idx] |= (unsigned char) (1u << (r & 7));
          cnt[idx]++;
        }
    }
  for (size_t idx = 0; idx < tabsz; idx++)
    if (cnt[idx])
      {
        size_t x = idx;
        printf ("{\"e\":\"csclass\",\"cs\":[");
        int first = 1;
        while (x)
          {
            printf (first ? "%u" : ",%u", rep[(x % base) - 1]);
            first = 0;
            x /= base;
          }
        printf ("],\"rs\":[");
        first = 1;
        for (int r = 0; r < 8; r++)
          if (mask[idx] & (1u << r))
            {
              printf (first ? "%d" : ",%d", r);
              first = 0;
            }
        printf ("],\"n\":%u}\n", cnt[idx]);
      }
  /* the null pointer */
  printf ("{\"e\":\"csnull\",\"r\":%d}\n", f (0));
  return 0;
}
