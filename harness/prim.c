/* prim - drives the digest / MAC / KDF / DES primitives of the freshly built library through their
 * internal API (the one the repository's own alg-* tests use) and records, for TLC:
 *   digest events : message, the chunking used, digest, the compression-function applications
 *                   observed through the XCRYPT_VERIF hook, whether the context was erased by Final
 *   hmac events   : key, message, MAC, and the digest facts H(x)=y the standard construction needs,
 *                   evaluated with the library's own H
 *   pbkdf2 events : P, S, c, dkLen, DK and the HMAC facts the standard construction needs
 *   des events    : key, salt, count, input, output of the salted iterated block function
 * Compiled against the repository's headers and linked to the private libxcv.so.
 * Commands (hex strings, "=" = empty):
 *   digest <alg> <msg> <chunks: a,b,c> <align>
 *   hmac <sha1|sha256|gost256> <key> <msg>
 *   pbkdf2 <pass> <salt> <c> <dklen>
 *   des <key8> <salt> <count> <in8> <decrypt>
 *   destables
 */
#include "crypt-port.h"
#include "alg-md4.h"
#include "alg-md5.h"
#include "alg-sha1.h"
#include "alg-sha256.h"
#include "alg-sha512.h"
#include "alg-hmac-sha1.h"
#include "alg-gost3411-2012-core.h"
#include "alg-gost3411-2012-hmac.h"
#include "alg-des.h"
#include <stdio.h>
#include <stdlib.h>
#include <string.h>

#define MAXM 70000
static unsigned char m1[MAXM], m2[MAXM], m3[MAXM];
static FILE *out;

static long
unhex (const char *h, unsigned char *dst)
{
  if (!strcmp (h, "="))
    return 0;
  size_t n = strlen (h) / 2;
  for (size_t i = 0; i < n; i++)
    {
      unsigned v;
      sscanf (h + 2 * i, "%2x", &v);
      dst[i] = (unsigned char) v;
    }
  return (long) n;
}
static void
jarr (const unsigned char *s, size_t n)
{
  fputc ('[', out);
  for (size_t i = 0; i < n; i++)
    fprintf (out, i ? ",%u" : "%u", s[i]);
  fputc (']', out);
}

/* ---- compression events */
#define MAXCF 4096
static struct cf { char alg[12]; unsigned char in[128], blk[128], outb[64]; size_t il, bl, ol; } cfs[MAXCF];
static int ncf;
static void
sink (const char *ev, const void *a, size_t al, const void *b, size_t bl, const void *c, size_t cl)
{
  if (ncf >= MAXCF || al > 128 || bl > 128 || cl > 64)
    return;
  struct cf *x = &cfs[ncf++];
  snprintf (x->alg, sizeof x->alg, "%s", ev);
  memcpy (x->in, a, al); x->il = al;
  memcpy (x->blk, b, bl); x->bl = bl;
  memcpy (x->outb, c, cl); x->ol = cl;
}
static void
emit_cfs (void)
{
  fprintf (out, ",\"cfs\":[");
  for (int i = 0; i < ncf; i++)
    {
      fprintf (out, "%s{\"in\":", i ? "," : "");
      jarr (cfs[i].in, cfs[i].il);
      fprintf (out, ",\"blk\":");
      jarr (cfs[i].blk, cfs[i].bl);
      fprintf (out, ",\"out\":");
      jarr (cfs[i].outb, cfs[i].ol);
      fprintf (out, "}");
    }
  fprintf (out, "]");
}
static int
all_zero (const void *p, size_t n)
{
  const unsigned char *q = p;
  for (size_t i = 0; i < n; i++)
    if (q[i])
      return 0;
  return 1;
}

/* one-shot digest with the library's own H (for MAC facts) */
static size_t
H (const char *alg, const unsigned char *m, size_t n, unsigned char *d)
{
  if (!strcmp (alg, "sha1"))
    {
      struct sha1_ctx c;
      sha1_init_ctx (&c);
      sha1_process_bytes (m, &c, n);
      sha1_finish_ctx (&c, d);
      return 20;
    }
  if (!strcmp (alg, "sha256"))
    {
      SHA256_Buf (m, n, d);
      return 32;
    }
  GOST34112012Context c;
  gost_hash256 (m, n, d, &c);
  return 32;
}

static size_t
do_digest (const char *alg, const unsigned char *msg, size_t n, const size_t *chunks, int nch, unsigned char *dg, int *ctxzero)
{
  size_t off = 0, dl = 0;
#define FEED(UPD) for (int i = 0; i < nch; i++) { UPD; off += chunks[i]; }
  if (!strcmp (alg, "md4"))
    {
      MD4_CTX c; MD4_Init (&c);
      FEED (MD4_Update (&c, msg + off, chunks[i]));
      MD4_Final (dg, &c); dl = 16; *ctxzero = all_zero (&c, sizeof c);
    }
  else if (!strcmp (alg, "md5"))
    {
      MD5_CTX c; MD5_Init (&c);
      FEED (MD5_Update (&c, msg + off, chunks[i]));
      MD5_Final (dg, &c); dl = 16; *ctxzero = all_zero (&c, sizeof c);
    }
  else if (!strcmp (alg, "sha1"))
    {
      struct sha1_ctx c; sha1_init_ctx (&c);
      FEED (sha1_process_bytes (msg + off, &c, chunks[i]));
      sha1_finish_ctx (&c, dg); dl = 20; *ctxzero = all_zero (&c, sizeof c);
    }
  else if (!strcmp (alg, "sha256"))
    {
      SHA256_CTX c; SHA256_Init (&c);
      FEED (SHA256_Update (&c, msg + off, chunks[i]));
      SHA256_Final (dg, &c); dl = 32; *ctxzero = all_zero (&c, sizeof c);
    }
  else if (!strcmp (alg, "sha512"))
    {
      SHA512_CTX c; SHA512_Init (&c);
      FEED (SHA512_Update (&c, msg + off, chunks[i]));
      SHA512_Final (dg, &c); dl = 64; *ctxzero = all_zero (&c, sizeof c);
    }
  else if (!strcmp (alg, "gost256") || !strcmp (alg, "gost512"))
    {
      GOST34112012Context c;
      int bits = !strcmp (alg, "gost256") ? 256 : 512;
      GOST34112012Init (&c, (unsigned) bits);
      FEED (GOST34112012Update (&c, msg + off, chunks[i]));
      GOST34112012Final (&c, dg); dl = (size_t) bits / 8; *ctxzero = all_zero (&c, sizeof c);
    }
  (void) n;
  return dl;
}

static void
fact (const char *alg, const unsigned char *m, size_t n, int first)
{
  unsigned char d[64];
  size_t dl = H (alg, m, n, d);
  fprintf (out, "%s{\"m\":", first ? "" : ",");
  jarr (m, n);
  fprintf (out, ",\"d\":");
  jarr (d, dl);
  fprintf (out, "}");
}

int
main (void)
{
  out = stdout;
  static char obuf[1 << 20];
  setvbuf (out, obuf, _IOFBF, sizeof obuf);
  static char line[6 * MAXM + 256], a0[2 * MAXM + 8], a1[2 * MAXM + 8], a2[2 * MAXM + 8], a3[8192], a4[64], a5[64];
  _crypt_verif_sink = sink;
  while (fgets (line, sizeof line, stdin))
    {
      char cmd[32];
      a0[0] = a1[0] = a2[0] = a3[0] = a4[0] = a5[0] = 0;
      if (sscanf (line, "%31s %140007s %140007s %140007s %8191s %63s", cmd, a0, a1, a2, a3, a4) < 1)
        continue;
      ncf = 0;
      if (!strcmp (cmd, "digest"))
        { /* digest alg msg chunks align */
          long n = unhex (a1, m1 + 16);
          int align = atoi (a3);
          unsigned char *msg = m2 + 16 + align;       /* buffer alignment 0..15 */
          memcpy (msg, m1 + 16, (size_t) n);
          size_t chunks[64];
          int nch = 0;
          for (char *t = strtok (a2, ","); t && nch < 64; t = strtok (0, ","))
            chunks[nch++] = (size_t) atol (t);
          unsigned char dg[64];
          int cz = 0;
          size_t dl = do_digest (a0, msg, (size_t) n, chunks, nch, dg, &cz);
          fprintf (out, "{\"e\":\"digest\",\"alg\":\"%s\",\"msg\":", a0);
          jarr (msg, (size_t) n);
          fprintf (out, ",\"chunks\":[");
          for (int i = 0; i < nch; i++)
            fprintf (out, i ? ",%zu" : "%zu", chunks[i]);
          fprintf (out, "],\"align\":%d,\"dg\":", align);
          jarr (dg, dl);
          fprintf (out, ",\"ctxzero\":%d", cz);
          emit_cfs ();
          fprintf (out, "}\n");
        }
      else if (!strcmp (cmd, "hmac"))
        { /* hmac alg key msg */
          long kl = unhex (a1, m1), ml = unhex (a2, m2);
          unsigned char mac[64];
          size_t macl = 0, B = 64;
          const char *halg = a0;
          int gost_ctxzero = -1;
          if (!strcmp (a0, "sha1"))
            {
              hmac_sha1_process_data (m2, (size_t) ml, m1, (size_t) kl, mac);
              macl = 20;
            }
          else if (!strcmp (a0, "sha256"))
            {
              HMAC_SHA256_Buf (m1, (size_t) kl, m2, (size_t) ml, mac);
              macl = 32;
            }
          else
            {
              gost_hmac_256_t gb;
              memset (&gb, 0xa5, sizeof gb);
              gost_hmac256 (m1, (size_t) kl, m2, (size_t) ml, mac, &gb);
              macl = 32;
              halg = "gost256";
              /* the caller's work area held the key, both pads and the inner digest: all of it is erased on return */
              gost_ctxzero = 1;
              for (size_t i = 0; i < sizeof gb; i++)
                if (((unsigned char *) &gb)[i])
                  gost_ctxzero = 0;
            }
          fprintf (out, "{\"e\":\"hmac\",\"alg\":\"%s\"", a0);
          if (gost_ctxzero >= 0)
            fprintf (out, ",\"ctxzero\":%d", gost_ctxzero);
          fprintf (out, ",\"key\":");
          jarr (m1, (size_t) kl);
          fprintf (out, ",\"msg\":");
          jarr (m2, (size_t) ml);
          fprintf (out, ",\"mac\":");
          jarr (mac, macl);
          /* the digest facts of the textbook construction, by the library's own H */
          unsigned char kp[64], d[64];
          memset (kp, 0, sizeof kp);
          fprintf (out, ",\"facts\":[");
          int first = 1;
          if ((size_t) kl > B)
            {
              fact (halg, m1, (size_t) kl, first);
              first = 0;
              size_t dl = H (halg, m1, (size_t) kl, d);
              memcpy (kp, d, dl);
            }
          else
            memcpy (kp, m1, (size_t) kl);
          for (size_t i = 0; i < B; i++)
            m3[i] = kp[i] ^ 0x36;
          memcpy (m3 + B, m2, (size_t) ml);
          fact (halg, m3, B + (size_t) ml, first);
          size_t dl = H (halg, m3, B + (size_t) ml, d);
          for (size_t i = 0; i < B; i++)
            m3[i] = kp[i] ^ 0x5c;
          memcpy (m3 + B, d, dl);
          fact (halg, m3, B + dl, 0);
          fprintf (out, "]}\n");
        }
      else if (!strcmp (cmd, "hmacs"))
        { /* hmacs key msg chunks : HMAC-SHA256 through the streaming interface, message fed in chunks */
          long kl = unhex (a0, m1), ml = unhex (a1, m2);
          unsigned char mac[32], d[64], kp[64];
          HMAC_SHA256_CTX hc;
          HMAC_SHA256_Init (&hc, m1, (size_t) kl);
          size_t off = 0;
          fprintf (out, "{\"e\":\"hmac\",\"alg\":\"sha256\",\"stream\":1,\"chunks\":[");
          int firstc = 1;
          for (char *tk = strtok (a2, ","); tk; tk = strtok (0, ","))
            {
              size_t c = (size_t) atol (tk);
              if (off + c > (size_t) ml) c = (size_t) ml - off;
              HMAC_SHA256_Update (&hc, m2 + off, c);
              off += c;
              fprintf (out, "%s%zu", firstc ? "" : ",", c);
              firstc = 0;
            }
          HMAC_SHA256_Final (mac, &hc);
          fprintf (out, "],\"ctxzero\":%d,\"key\":", all_zero (&hc, sizeof hc));
          jarr (m1, (size_t) kl);
          fprintf (out, ",\"msg\":");
          jarr (m2, (size_t) ml);
          fprintf (out, ",\"mac\":");
          jarr (mac, 32);
          memset (kp, 0, sizeof kp);
          fprintf (out, ",\"facts\":[");
          int first = 1;
          if ((size_t) kl > 64)
            {
              fact ("sha256", m1, (size_t) kl, first);
              first = 0;
              H ("sha256", m1, (size_t) kl, d);
              memcpy (kp, d, 32);
            }
          else
            memcpy (kp, m1, (size_t) kl);
          for (size_t i = 0; i < 64; i++) m3[i] = kp[i] ^ 0x36;
          memcpy (m3 + 64, m2, (size_t) ml);
          fact ("sha256", m3, 64 + (size_t) ml, first);
          H ("sha256", m3, 64 + (size_t) ml, d);
          for (size_t i = 0; i < 64; i++) m3[i] = kp[i] ^ 0x5c;
          memcpy (m3 + 64, d, 32);
          fact ("sha256", m3, 96, 0);
          fprintf (out, "]}\n");
        }
      else if (!strcmp (cmd, "pbkdf2"))
        { /* pbkdf2 pass salt c dklen */
          long pl = unhex (a0, m1), sl = unhex (a1, m2);
          unsigned long c = strtoul (a2, 0, 10);
          size_t dkl = (size_t) atol (a3);
          unsigned char dk[4096];
          if (dkl > sizeof dk)
            dkl = sizeof dk;
          PBKDF2_SHA256 (m1, (size_t) pl, m2, (size_t) sl, c, dk, dkl);
          fprintf (out, "{\"e\":\"pbkdf2\",\"pass\":");
          jarr (m1, (size_t) pl);
          fprintf (out, ",\"salt\":");
          jarr (m2, (size_t) sl);
          fprintf (out, ",\"c\":%lu,\"dklen\":%zu,\"dk\":", c, dkl);
          jarr (dk, dkl);
          /* HMAC facts of the standard construction: U_1 = PRF(P, S || INT(i)), U_j = PRF(P, U_{j-1}) */
          fprintf (out, ",\"facts\":[");
          int first = 1;
          for (size_t blk = 1; (blk - 1) * 32 < dkl; blk++)
            {
              unsigned char u[32];
              memcpy (m3, m2, (size_t) sl);
              m3[sl] = (unsigned char) (blk >> 24); m3[sl + 1] = (unsigned char) (blk >> 16);
              m3[sl + 2] = (unsigned char) (blk >> 8); m3[sl + 3] = (unsigned char) blk;
              size_t ml = (size_t) sl + 4;
              for (unsigned long j = 1; j <= c; j++)
                {
                  HMAC_SHA256_Buf (m1, (size_t) pl, m3, ml, u);
                  fprintf (out, "%s{\"m\":", first ? "" : ",");
                  first = 0;
                  jarr (m3, ml);
                  fprintf (out, ",\"d\":");
                  jarr (u, 32);
                  fprintf (out, "}");
                  memcpy (m3, u, 32);
                  ml = 32;
                }
            }
          fprintf (out, "]}\n");
        }
      else if (!strcmp (cmd, "pbkdf2sel"))
        { /* pbkdf2sel pass salt c dklen i1,i2,... : a long derived key, of which the listed blocks (1-based) are reported */
          long pl = unhex (a0, m1), sl = unhex (a1, m2);
          unsigned long c = strtoul (a2, 0, 10);
          size_t dkl = (size_t) atol (a3);
          unsigned char *dk = malloc (dkl ? dkl : 1);
          PBKDF2_SHA256 (m1, (size_t) pl, m2, (size_t) sl, c, dk, dkl);
          fprintf (out, "{\"e\":\"pbkdf2sel\",\"pass\":");
          jarr (m1, (size_t) pl);
          fprintf (out, ",\"salt\":");
          jarr (m2, (size_t) sl);
          fprintf (out, ",\"c\":%lu,\"dklen\":%zu,\"blocks\":[", c, dkl);
          char *save = 0, list[256];
          snprintf (list, sizeof list, "%s", a4);
          int firstb = 1;
          for (char *tok = strtok_r (list, ",", &save); tok; tok = strtok_r (0, ",", &save))
            {
              size_t blk = (size_t) strtoul (tok, 0, 10);
              if (!blk || (blk - 1) * 32 >= dkl)
                continue;
              size_t n = dkl - (blk - 1) * 32 < 32 ? dkl - (blk - 1) * 32 : 32;
              fprintf (out, "%s{\"i\":%zu,\"dk\":", firstb ? "" : ",", blk);
              firstb = 0;
              jarr (dk + (blk - 1) * 32, n);
              fprintf (out, "}");
            }
          fprintf (out, "],\"facts\":[");
          snprintf (list, sizeof list, "%s", a4);
          int first = 1;
          for (char *tok = strtok_r (list, ",", &save); tok; tok = strtok_r (0, ",", &save))
            {
              size_t blk = (size_t) strtoul (tok, 0, 10);
              unsigned char u[32];
              memcpy (m3, m2, (size_t) sl);
              m3[sl] = (unsigned char) (blk >> 24); m3[sl + 1] = (unsigned char) (blk >> 16);
              m3[sl + 2] = (unsigned char) (blk >> 8); m3[sl + 3] = (unsigned char) blk;
              size_t ml = (size_t) sl + 4;
              for (unsigned long j = 1; j <= c; j++)
                {
                  HMAC_SHA256_Buf (m1, (size_t) pl, m3, ml, u);
                  fprintf (out, "%s{\"m\":", first ? "" : ",");
                  first = 0;
                  jarr (m3, ml);
                  fprintf (out, ",\"d\":");
                  jarr (u, 32);
                  fprintf (out, "}");
                  memcpy (m3, u, 32);
                  ml = 32;
                }
            }
          fprintf (out, "]}\n");
          free (dk);
        }
      else if (!strcmp (cmd, "des"))
        { /* des key8 salt count in8 decrypt */
          unsigned char k[8], in[8], o[8];
          unhex (a0, k);
          uint32_t salt = (uint32_t) strtoul (a1, 0, 10);
          uint32_t count = (uint32_t) strtoul (a2, 0, 10);
          unhex (a3, in);
          int dec = atoi (a4);
          struct des_ctx ctx;
          memset (&ctx, 0, sizeof ctx);
          des_set_key (&ctx, k);
          des_set_salt (&ctx, salt);
          des_crypt_block (&ctx, o, in, count, dec != 0);
          fprintf (out, "{\"e\":\"des\",\"key\":");
          jarr (k, 8);
          fprintf (out, ",\"salt\":%u,\"count\":%u,\"in\":", salt, count);
          jarr (in, 8);
          fprintf (out, ",\"dec\":%d,\"out\":", dec);
          jarr (o, 8);
          fprintf (out, "}\n");
        }
      else if (!strcmp (cmd, "desseq"))
        { /* desseq key8a key8b salt count in8 : ONE context keyed twice (the first schedule must not survive), then a block */
          unsigned char k1[8], k2[8], in[8], o[8];
          unhex (a0, k1);
          unhex (a1, k2);
          uint32_t salt = (uint32_t) strtoul (a2, 0, 10);
          uint32_t count = (uint32_t) strtoul (a3, 0, 10);
          unhex (a4, in);
          struct des_ctx ctx;
          memset (&ctx, 0xa5, sizeof ctx);                /* and the context is not assumed to start out zeroed */
          des_set_key (&ctx, k1);
          des_set_salt (&ctx, salt ^ 0x5a5a5a);
          des_set_key (&ctx, k2);
          des_set_salt (&ctx, salt);
          des_crypt_block (&ctx, o, in, count, 0);
          fprintf (out, "{\"e\":\"des\",\"key\":");
          jarr (k2, 8);
          fprintf (out, ",\"salt\":%u,\"count\":%u,\"in\":", salt, count);
          jarr (in, 8);
          fprintf (out, ",\"dec\":0,\"out\":");
          jarr (o, 8);
          fprintf (out, "}\n");
        }
      else if (!strcmp (cmd, "destables"))
        { /* the generated lookup tables of alg-des-tables.c, one line per (table, chunk); 32-bit entries as [hi16, lo16] */
#define DUMP2(name, L, R, n) \
          for (int k = 0; k < 8; k++) \
            { \
              fprintf (out, "{\"e\":\"destab\",\"t\":\"%s\",\"k\":%d,\"l\":[", name, k); \
              for (int v = 0; v < n; v++) fprintf (out, "%s[%u,%u]", v ? "," : "", L[k][v] >> 16, L[k][v] & 0xffff); \
              fprintf (out, "],\"r\":["); \
              for (int v = 0; v < n; v++) fprintf (out, "%s[%u,%u]", v ? "," : "", R[k][v] >> 16, R[k][v] & 0xffff); \
              fprintf (out, "]}\n"); \
            }
          DUMP2 ("ip", ip_maskl, ip_maskr, 256)
          DUMP2 ("fp", fp_maskl, fp_maskr, 256)
          DUMP2 ("keyperm", key_perm_maskl, key_perm_maskr, 128)
          DUMP2 ("comp", comp_maskl, comp_maskr, 128)
          for (int b = 0; b < 4; b++)
            {
              fprintf (out, "{\"e\":\"destab\",\"t\":\"msbox\",\"k\":%d,\"l\":[", b);
              for (int v = 0; v < 4096; v++) fprintf (out, "%s%u", v ? "," : "", m_sbox[b][v]);
              fprintf (out, "],\"r\":[]}\n");
              fprintf (out, "{\"e\":\"destab\",\"t\":\"psbox\",\"k\":%d,\"l\":[", b);
              for (int v = 0; v < 256; v++) fprintf (out, "%s[%u,%u]", v ? "," : "", psbox[b][v] >> 16, psbox[b][v] & 0xffff);
              fprintf (out, "],\"r\":[]}\n");
            }
        }
      else if (!strcmp (cmd, "quit"))
        break;
    }
  fflush (out);
  return 0;
}
