/* mt - multi-threaded stress driver (C08): N threads call the re-entrant interfaces concurrently on
 * distinct objects and buffers, barriers maximise overlap; every result is recorded and later compared
 * by TLC (TraceXCrypt) with the result the same request gave when run alone.
 * usage: mt <lib> <nthreads> <rounds>   stdin: "<fn> <phrase-or-rbytes hex> <setting-or-prefix hex>" */
#define _GNU_SOURCE
#include <dlfcn.h>
#include <errno.h>
#include <pthread.h>
#include <stdio.h>
#include <stdlib.h>
#include <string.h>

typedef char *(*crypt_rn_t) (const char *, const char *, void *, int);
typedef char *(*crypt_ra_t) (const char *, const char *, void **, int *);
typedef char *(*crypt_r_t) (const char *, const char *, void *);
typedef char *(*gensalt_rn_t) (const char *, unsigned long, const char *, int, char *, int);
typedef int (*checksalt_t) (const char *);
static crypt_rn_t f_rn; static crypt_ra_t f_ra; static crypt_r_t f_r; static gensalt_rn_t f_gs; static checksalt_t f_cs;

#define MAXREQ 4096
static struct req { char fn[16]; unsigned char a[600]; long al; char s[400]; long sl; } reqs[MAXREQ];
static int nreq, nthreads, rounds;
static pthread_barrier_t bar;
struct res { int req; int err; int null; int ival; char out[400]; };
static struct res *results[64];
static int nres[64];

static long unhex (const char *h, unsigned char *d)
{
  if (!strcmp (h, "=")) return 0;
  size_t n = strlen (h) / 2;
  for (size_t i = 0; i < n; i++) { unsigned v; sscanf (h + 2 * i, "%2x", &v); d[i] = (unsigned char) v; }
  return (long) n;
}
static void *worker (void *arg)
{
  int t = (int) (long) arg;
  void *obj = calloc (1, 32768);
  void *ra = 0; int rasz = 0;
  char gsbuf[192];
  for (int r = 0; r < rounds; r++)
    {
      pthread_barrier_wait (&bar);
      for (int k = 0; k < nreq; k++)
        {
          int i = (k + t * 7 + r) % nreq;          /* threads run different requests at the same time */
          struct req *q = &reqs[i];
          struct res *o = &results[t][nres[t]++];
          o->req = i; o->ival = 0;
          errno = 0;
          char *p = 0;
          if (!strcmp (q->fn, "crypt_r")) p = f_r ((char *) q->a, q->s, obj);
          else if (!strcmp (q->fn, "crypt_rn")) p = f_rn ((char *) q->a, q->s, obj, 32768);
          else if (!strcmp (q->fn, "crypt_ra")) p = f_ra ((char *) q->a, q->s, &ra, &rasz);
          else if (!strcmp (q->fn, "gensalt_rn")) p = f_gs (q->s, 0, (char *) q->a, (int) q->al, gsbuf, sizeof gsbuf);
          else if (!strcmp (q->fn, "checksalt")) { o->ival = f_cs (q->s); p = (char *) ""; }
          o->err = errno;
          o->null = p == 0;
          snprintf (o->out, sizeof o->out, "%s", p ? p : (!strcmp (q->fn, "crypt_r") ? "" : ""));
          if (!strcmp (q->fn, "crypt_r") && p) snprintf (o->out, sizeof o->out, "%s", p);
        }
    }
  free (obj); free (ra);
  return 0;
}
static void jarr (const unsigned char *s, size_t n)
{
  putchar ('[');
  for (size_t i = 0; i < n; i++) printf (i ? ",%u" : "%u", s[i]);
  putchar (']');
}
int main (int argc, char **argv)
{
  void *lib = dlopen (argv[1], RTLD_NOW | RTLD_GLOBAL);
  if (!lib) { fprintf (stderr, "%s\n", dlerror ()); return 2; }
  nthreads = atoi (argv[2]); rounds = atoi (argv[3]);
  f_rn = (crypt_rn_t) dlsym (lib, "crypt_rn"); f_ra = (crypt_ra_t) dlsym (lib, "crypt_ra"); f_r = (crypt_r_t) dlsym (lib, "crypt_r");
  f_gs = (gensalt_rn_t) dlsym (lib, "crypt_gensalt_rn"); f_cs = (checksalt_t) dlsym (lib, "crypt_checksalt");
  static char line[4096], fn[16], a[1400], s[900];
  while (nreq < MAXREQ && fgets (line, sizeof line, stdin))
    if (sscanf (line, "%15s %1399s %899s", fn, a, s) == 3)
      {
        struct req *q = &reqs[nreq++];
        snprintf (q->fn, sizeof q->fn, "%s", fn);
        q->al = unhex (a, q->a); q->a[q->al] = 0;
        unsigned char tmp[450]; q->sl = unhex (s, tmp); memcpy (q->s, tmp, (size_t) q->sl); q->s[q->sl] = 0;
      }
  pthread_barrier_init (&bar, 0, (unsigned) nthreads);
  pthread_t th[64];
  for (int t = 0; t < nthreads; t++)
    {
      results[t] = calloc ((size_t) nreq * (size_t) rounds + 1, sizeof (struct res));
      pthread_create (&th[t], 0, worker, (void *) (long) t);
    }
  for (int t = 0; t < nthreads; t++) pthread_join (th[t], 0);
  for (int t = 0; t < nthreads; t++)
    for (int k = 0; k < nres[t]; k++)
      {
        struct res *o = &results[t][k];
        struct req *q = &reqs[o->req];
        printf ("{\"e\":\"%s\",\"mt\":1,\"t\":%d,\"req\":%d,\"errno\":%d,\"null\":%d,\"ival\":%d,\"a\":", q->fn, t, o->req, o->err, o->null, o->ival);
        jarr (q->a, (size_t) q->al);
        printf (",\"s\":");
        jarr ((unsigned char *) q->s, (size_t) q->sl);
        printf (",\"out\":");
        jarr ((unsigned char *) o->out, strlen (o->out));
        printf ("}\n");
      }
  return 0;
}
