/* xcv - command-driven executor/recorder for libxcrypt conformance checking.
 *
 * Loads the freshly built private library (argv[1], built by tools/build.sh from /repo's working
 * tree), reads commands on stdin, executes API calls against the real code and writes one NDJSON
 * event per call on stdout with the *projection* of the C state that the TLA+ specifications talk
 * about (DESIGN.md 2.4).  It decides nothing itself: trace specifications and the check driver do.
 *
 * The executable interposes explicit_bzero / malloc / realloc / free / mmap / munmap /
 * arc4random_buf / getrandom / getentropy for the library (link with -rdynamic).
 *
 * Strings in commands are hex; "-" is the NULL pointer; "=" is the empty string.
 */
#define _GNU_SOURCE
#include <dlfcn.h>
#include <errno.h>
#include <link.h>
#include <malloc.h>
#include <signal.h>
#include <stdarg.h>
#include <stdint.h>
#include <stdio.h>
#include <stdlib.h>
#include <string.h>
#include <sys/mman.h>
#include <sys/random.h>
#include <sys/resource.h>
#include <ucontext.h>
#include <unistd.h>

#define CD_SIZE 32768
#define OFF_OUTPUT 0
#define OFF_SETTING 384
#define OFF_INPUT 768
#define OFF_RESERVED 1280
#define OFF_INITIALIZED 2047
#define OFF_INTERNAL 2048
#define OUT_SIZE 384
#define GS_SIZE 192

#ifdef XCV_NO_MALLOC_WRAP
/* sanitizer builds own the allocator: no heap ledger there */
#define __libc_malloc malloc
#define __libc_realloc realloc
#define __libc_free free
#define __libc_calloc calloc
#else
extern void *__libc_malloc (size_t);
extern void *__libc_realloc (void *, size_t);
extern void __libc_free (void *);
extern void *__libc_calloc (size_t, size_t);
#endif

/* ------------------------------------------------------------------ output */
static FILE *out;
static long lineno;
static char curcmd[256];

static void
jstr_codes (const unsigned char *s, size_t n)
{
  fputc ('[', out);
  for (size_t i = 0; i < n; i++)
    fprintf (out, i ? ",%u" : "%u", s[i]);
  fputc (']', out);
}
static void
jhex (const unsigned char *s, size_t n)
{
  fputc ('"', out);
  for (size_t i = 0; i < n; i++)
    fprintf (out, "%02x", s[i]);
  fputc ('"', out);
}

/* ------------------------------------------------------------------ API */
typedef char *(*crypt_rn_t) (const char *, const char *, void *, int);
typedef char *(*crypt_ra_t) (const char *, const char *, void **, int *);
typedef char *(*crypt_r_t) (const char *, const char *, void *);
typedef char *(*crypt_t) (const char *, const char *);
typedef char *(*gensalt_rn_t) (const char *, unsigned long, const char *, int, char *, int);
typedef char *(*gensalt_ra_t) (const char *, unsigned long, const char *, int);
typedef char *(*gensalt_t) (const char *, unsigned long, const char *, int);
typedef int (*checksalt_t) (const char *);
typedef const char *(*preferred_t) (void);
typedef void (*setkey_r_t) (const char *, void *);
typedef void (*encrypt_r_t) (char *, int, void *);
typedef void (*setkey_t) (const char *);
typedef void (*encrypt_t) (char *, int);

static void *lib;
static uintptr_t libbase;
static crypt_rn_t f_crypt_rn;
static crypt_ra_t f_crypt_ra;
static crypt_r_t f_crypt_r, f_xcrypt_r;
static crypt_t f_crypt, f_fcrypt, f_xcrypt;
static gensalt_rn_t f_gensalt_rn, f_gensalt_r, f_xgensalt_r;
static gensalt_ra_t f_gensalt_ra;
static gensalt_t f_gensalt, f_xgensalt;
static checksalt_t f_checksalt;
static preferred_t f_preferred;
static setkey_r_t f_setkey_r;
static encrypt_r_t f_encrypt_r;
static setkey_t f_setkey;
static encrypt_t f_encrypt;

static void *
vsym (const char *name)
{
  static const char *vers[] = { 0, "XCRYPT_4.4", "XCRYPT_4.3", "XCRYPT_2.0", "OW_CRYPT_1.0",
                                "GLIBC_2.2.5", "GLIBC_2.0" };
  /* XCV_SYMVER: bind every symbol at this version node when it exists there (old-binary view) */
  const char *want = getenv ("XCV_SYMVER");
  void *p = want ? dlvsym (lib, name, want) : 0;
  if (!p)
    p = dlsym (lib, name);
  for (size_t i = 1; !p && i < sizeof vers / sizeof vers[0]; i++)
    p = dlvsym (lib, name, vers[i]);
  return p;
}

/* ------------------------------------------------------------------ statics inventory */
struct sym { char name[64]; uintptr_t off; size_t size; unsigned char *snap; };
static struct sym syms[64];
static int nsyms;

static void
load_syms (const char *path)
{
  FILE *f = fopen (path, "r");
  if (!f)
    return;
  char name[128];
  unsigned long off, size;
  while (nsyms < 64 && fscanf (f, "%lx %lx %127s", &off, &size, name) == 3)
    {
      if (size == 0 || size > (1u << 20))
        continue;
      snprintf (syms[nsyms].name, sizeof syms[nsyms].name, "%s", name);
      syms[nsyms].off = off;
      syms[nsyms].size = size;
      syms[nsyms].snap = __libc_malloc (size);
      nsyms++;
    }
  fclose (f);
}
/* raw copies/compares: under ASan the symbol size includes the global's red zone */
#define NOSAN __attribute__ ((no_sanitize_address)) __attribute__ ((noinline))
NOSAN static void
raw_copy (unsigned char *d, const volatile unsigned char *s, size_t n)
{
  for (size_t i = 0; i < n; i++)
    d[i] = s[i];
}
NOSAN static int
raw_differs (const unsigned char *a, const volatile unsigned char *b, size_t n)
{
  for (size_t i = 0; i < n; i++)
    if (a[i] != b[i])
      return 1;
  return 0;
}
static void
snap_statics (void)
{
  for (int i = 0; i < nsyms; i++)
    raw_copy (syms[i].snap, (const unsigned char *) (libbase + syms[i].off), syms[i].size);
}
/* libc functions that POSIX does not require to be thread-safe (they keep their result or state in static storage
   inside libc, which no snapshot of the library's own segments sees): a call made by the library during an API call
   is part of that call's write footprint, reported in "sw" as "libc:<name>".  */
static unsigned long libc_nr_hit;
static const char *const libc_nr_name[] = { "l64a", "strtok", "rand", "random", "drand48", "lrand48", "mrand48", "strerror", "localtime",
                                            "gmtime", "asctime", "ctime", "ecvt", "fcvt", "srand", "srandom", "a64l", "strsignal" };
static int in_lib;
static int realloc_inplace;      /* command ramode: 1 = a block that is large enough is resized in place */
static int stage_mode;           /* command stage: 1 = phrase and setting are passed from the object's input/setting fields */
#define NR_WRAP(idx, ret, name, params, args) \
  ret name params { static ret (*real) params; if (!real) real = (ret (*) params) dlsym (RTLD_NEXT, #name); \
                    if (in_lib) libc_nr_hit |= 1UL << (idx); return real args; }
struct tm;
NR_WRAP (0, char *, l64a, (long v), (v))
NR_WRAP (1, char *, strtok, (char *s, const char *d), (s, d))
NR_WRAP (2, int, rand, (void), ())
NR_WRAP (3, long, random, (void), ())
NR_WRAP (4, double, drand48, (void), ())
NR_WRAP (5, long, lrand48, (void), ())
NR_WRAP (6, long, mrand48, (void), ())
NR_WRAP (7, char *, strerror, (int e), (e))
NR_WRAP (8, struct tm *, localtime, (const long *tp), (tp))
NR_WRAP (9, struct tm *, gmtime, (const long *tp), (tp))
NR_WRAP (10, char *, asctime, (const struct tm *tp), (tp))
NR_WRAP (11, char *, ctime, (const long *tp), (tp))
NR_WRAP (12, char *, ecvt, (double v, int n, int *d, int *s), (v, n, d, s))
NR_WRAP (13, char *, fcvt, (double v, int n, int *d, int *s), (v, n, d, s))
NR_WRAP (14, void, srand, (unsigned s), (s))
NR_WRAP (15, void, srandom, (unsigned s), (s))
NR_WRAP (16, long, a64l, (const char *s), (s))
NR_WRAP (17, char *, strsignal, (int s), (s))

static void
emit_statics_written (void)
{
  int first = 1;
  fprintf (out, ",\"sw\":[");
  for (unsigned i = 0; i < sizeof libc_nr_name / sizeof libc_nr_name[0]; i++)
    if (libc_nr_hit & (1UL << i))
      {
        fprintf (out, first ? "\"libc:%s\"" : ",\"libc:%s\"", libc_nr_name[i]);
        first = 0;
      }
  for (int i = 0; i < nsyms; i++)
    if (raw_differs (syms[i].snap, (const unsigned char *) (libbase + syms[i].off), syms[i].size))
      {
        fprintf (out, first ? "\"%s\"" : ",\"%s\"", syms[i].name);
        first = 0;
      }
  fprintf (out, "]");
}
static struct sym *
find_sym (const char *prefix)
{
  for (int i = 0; i < nsyms; i++)
    if (!strncmp (syms[i].name, prefix, strlen (prefix)))
      return &syms[i];
  return 0;
}

/* ------------------------------------------------------------------ needles (C09) */
#define MAXNEED 4096
static unsigned char needles[MAXNEED][8];
static int nneed;
static int scan_on;

static void
add_needle (const unsigned char *p)
{
  if (nneed < MAXNEED)
    memcpy (needles[nneed++], p, 8);
}
static void
needles_from (const unsigned char *ph, size_t n)
{
  nneed = 0;
  if (n < 8)
    return;
  unsigned char t[16];
  /* a bounded number of windows: start, every 8, and the end */
  for (size_t i = 0; i + 8 <= n && nneed + 8 < MAXNEED; i += (n > 64 ? 8 : 1))
    {
      const unsigned char *w = ph + i;
      add_needle (w);                                     /* raw */
      for (int k = 0; k < 8; k++) t[k] = (unsigned char) (w[k] << 1);
      add_needle (t);                                     /* DES key bytes */
      for (int k = 0; k < 8; k++) t[k] = w[k] ^ 0x36;
      add_needle (t);                                     /* HMAC ipad */
      for (int k = 0; k < 8; k++) t[k] = w[k] ^ 0x5c;
      add_needle (t);                                     /* HMAC opad */
      for (int k = 0; k < 4; k++) { t[2 * k] = w[k]; t[2 * k + 1] = 0; }
      add_needle (t);                                     /* UCS-2LE */
      for (int k = 0; k < 4; k++) { t[k] = w[3 - k]; t[4 + k] = w[7 - k]; }
      add_needle (t);                                     /* byte-swapped 32-bit words */
      for (int k = 0; k < 8; k++) t[k] = w[7 - k];
      add_needle (t);                                     /* byte-swapped 64-bit word */
    }
  if (n > 64)
    {
      /* key equivalents: HMAC replaces a key longer than its block by the key's digest, so SHA-1(phrase) and
         SHA-256(phrase) are what an HMAC-based method really keys with (the library erases its own copies, tk and
         khash, and the pads made from them).  Computed with the library's own digest code, when it is visible.  */
      static void (*s1i) (void *);
      static void (*s1p) (const void *, void *, size_t);
      static void *(*s1f) (void *, void *);
      static void (*s256) (const void *, size_t, unsigned char *);
      static int looked;
      if (!looked)
        {
          looked = 1;
          s1i = (void (*) (void *)) dlsym (lib, "_crypt_sha1_init_ctx");
          s1p = (void (*) (const void *, void *, size_t)) dlsym (lib, "_crypt_sha1_process_bytes");
          s1f = (void *(*) (void *, void *)) dlsym (lib, "_crypt_sha1_finish_ctx");
          s256 = (void (*) (const void *, size_t, unsigned char *)) dlsym (lib, "_crypt_SHA256_Buf");
        }
      unsigned char d[64];
      int have = 0;
      if (s1i && s1p && s1f)
        {
          static unsigned char ctxbuf[1024] __attribute__ ((aligned (16)));
          s1i (ctxbuf); s1p (ph, ctxbuf, n); s1f (ctxbuf, d);
          memset (ctxbuf, 0, sizeof ctxbuf);
          have = 20;
        }
      for (int pass = 0; pass < 2; pass++)
        {
          if (pass == 1)
            {
              if (!s256)
                break;
              s256 (ph, n, d);
              have = 32;
            }
          for (int o = 0; o + 8 <= have && o <= 8; o += 8)
            {
              add_needle (d + o);
              for (int k = 0; k < 8; k++) t[k] = d[o + k] ^ 0x36;
              add_needle (t);
              for (int k = 0; k < 8; k++) t[k] = d[o + k] ^ 0x5c;
              add_needle (t);
            }
        }
      memset (d, 0, sizeof d);
    }
}
static int
scan_region (const unsigned char *p, size_t n)
{
  if (!scan_on || nneed == 0 || n < 8)
    return 0;
  int hits = 0;
  for (int k = 0; k < nneed; k++)
    if (memmem (p, n, needles[k], 8))
      hits++;
  return hits;
}

/* ------------------------------------------------------------------ interposers */
/* (in_lib, "a library call is running", is declared above, before the libc wrappers) */
static int ncfe, naux, auxdrop;    /* primitive events of the current call */
static int req_no, fault_at, fault_at2; /* allocator/mapping request counter and fault schedule */
static int n_wipes;
static size_t wiped_bytes;
static int leak_free, leak_unmap;  /* needle hits in released memory */
#define MAXLED 64
static struct led { char op; void *oldp; void *newp; size_t size; int oldzero; int failed; size_t oldsize; } led[MAXLED];
static int nled;
#define MAXLIVE 256
static struct live { void *p; size_t size; int kind; } livetab[MAXLIVE];   /* kind 0 heap 1 map */
static int bad_free;
static size_t expect_erase_len;   /* crypt_ra: the recorded *size the library may erase */

static void
live_add (void *p, size_t size, int kind)
{
  for (int i = 0; i < MAXLIVE; i++)
    if (!livetab[i].p)
      {
        livetab[i].p = p; livetab[i].size = size; livetab[i].kind = kind;
        return;
      }
}
static int
live_del (void *p, int kind)
{
  for (int i = 0; i < MAXLIVE; i++)
    if (livetab[i].p == p && livetab[i].kind == kind)
      {
        livetab[i].p = 0;
        return 1;
      }
  return 0;
}
static int hlive (void);
static int
live_count (int kind)
{
#ifdef XCV_NO_MALLOC_WRAP
  if (kind == 0)
    return hlive ();          /* no heap ledger under a sanitizer */
#endif
  int n = 0;
  for (int i = 0; i < MAXLIVE; i++)
    if (livetab[i].p && livetab[i].kind == kind)
      n++;
  return n;
}
static int
all_zero (const unsigned char *p, size_t n)
{
  for (size_t i = 0; i < n; i++)
    if (p[i])
      return 0;
  return 1;
}
static int
should_fail (void)
{
  req_no++;
  return (fault_at && req_no == fault_at) || (fault_at2 && req_no == fault_at2);
}

void
explicit_bzero (void *p, size_t n)
{
  if (in_lib)
    {
      n_wipes++;
      wiped_bytes += n;
    }
  memset (p, 0, n);
  __asm__ __volatile__ ("" : : "r" (p) : "memory");
}

#ifndef XCV_NO_MALLOC_WRAP
void *
malloc (size_t n)
{
  if (!in_lib)
    return __libc_malloc (n);
  struct led *l = nled < MAXLED ? &led[nled++] : &led[MAXLED - 1];
  memset (l, 0, sizeof *l);
  l->op = 'm'; l->size = n;
  if (should_fail ())
    {
      l->failed = 1;
      errno = ENOMEM;
      return 0;
    }
  void *p = __libc_malloc (n);
  if (p)
    {
      memset (p, 0xd5, n);      /* fresh heap memory is not zero */
      live_add (p, n, 0);
    }
  l->newp = p;
  return p;
}
void *
calloc (size_t a, size_t b)
{
  if (!in_lib)
    return __libc_calloc (a, b);
  void *p = malloc (a * b);
  if (p)
    memset (p, 0, a * b);
  return p;
}
void *
realloc (void *old, size_t n)
{
  if (!in_lib)
    return __libc_realloc (old, n);
  struct led *l = nled < MAXLED ? &led[nled++] : &led[MAXLED - 1];
  memset (l, 0, sizeof *l);
  l->op = 'r'; l->size = n; l->oldp = old;
  size_t osz = old ? malloc_usable_size (old) : 0;
  l->oldsize = osz;
  if (old)
    {
      /* usable size may exceed what the owner asked for; judge the part the owner knows */
      size_t known = 0;
      for (int i = 0; i < MAXLIVE; i++)
        if (livetab[i].p == old && livetab[i].kind == 0)
          known = livetab[i].size;
      if (!known)
        known = osz;
      l->oldzero = all_zero (old, expect_erase_len && expect_erase_len < known ? expect_erase_len : known);
      l->oldsize = known;
      if (scan_region (old, known))
        leak_free++;
    }
  if (should_fail ())
    {
      l->failed = 1;
      errno = ENOMEM;
      return 0;
    }
  if (realloc_inplace && old && l->oldsize >= n)
    {
      /* the other thing an allocator may do: the block is big enough already and stays where it is, contents intact */
      l->newp = old;
      for (int i = 0; i < MAXLIVE; i++)
        if (livetab[i].p == old && livetab[i].kind == 0)
          livetab[i].size = l->oldsize;
      return old;
    }
  /* (default) always move, and poison the old block, so stale pointers are detectable */
  void *p = __libc_malloc (n ? n : 1);
  if (!p)
    return 0;
  memset (p, 0xd5, n);
  if (old)
    {
      size_t known = l->oldsize;
      memcpy (p, old, known < n ? known : n);
      memset (old, 0xdd, known);
      live_del (old, 0);
      __libc_free (old);
    }
  live_add (p, n, 0);
  l->newp = p;
  return p;
}
void
free (void *p)
{
  if (!in_lib)
    {
      __libc_free (p);
      return;
    }
  struct led *l = nled < MAXLED ? &led[nled++] : &led[MAXLED - 1];
  memset (l, 0, sizeof *l);
  l->op = 'f'; l->oldp = p;
  if (!p)
    return;
  size_t known = 0;
  for (int i = 0; i < MAXLIVE; i++)
    if (livetab[i].p == p && livetab[i].kind == 0)
      known = livetab[i].size;
  if (!live_del (p, 0))
    {
      bad_free++;            /* not a block the ledger knows as live: double free or foreign */
      l->failed = 1;
      return;
    }
  if (scan_region (p, known))
    leak_free++;
  memset (p, 0xdd, known);
  __libc_free (p);
}

#endif /* XCV_NO_MALLOC_WRAP */

/* environment model "huge pages are reserved" (command hugeok 1): a MAP_HUGETLB request is granted -- backed by
   ordinary pages here -- and, as on Linux, must later be unmapped with a length that is a multiple of the huge page
   size, otherwise munmap fails with EINVAL and the mapping stays.  The sandbox itself has no huge pages.  */
static int hugeok;
#define HUGE_SZ (2UL << 20)
static void *huge_base[8];
static size_t huge_len[8];
void *
mmap (void *addr, size_t len, int prot, int flags, int fd, off_t off)
{
  if (in_lib)
    {
      struct led *l = nled < MAXLED ? &led[nled++] : &led[MAXLED - 1];
      memset (l, 0, sizeof *l);
      l->op = (flags & 0x40000 /* MAP_HUGETLB */) ? 'H' : 'M'; l->size = len;
      if (should_fail ())
        {
          l->failed = 1;
          errno = ENOMEM;
          return MAP_FAILED;
        }
      int as_huge = hugeok && (flags & 0x40000);
      if (as_huge)
        {
          if (len % HUGE_SZ)
            {
              l->failed = 2;
              errno = EINVAL;
              return MAP_FAILED;
            }
          flags &= ~(0x40000 | (63 << 26));      /* MAP_HUGETLB and the MAP_HUGE_* size bits */
        }
      void *p = (void *) syscall (9 /* SYS_mmap */, addr, len, prot, flags, fd, off);
      if (as_huge && p != MAP_FAILED)
        for (int i = 0; i < 8; i++)
          if (!huge_base[i])
            {
              huge_base[i] = p; huge_len[i] = len;
              break;
            }
      if (p != MAP_FAILED)
        live_add (p, len, 1);
      else
        l->failed = 2;
      l->newp = p;
      return p;
    }
  return (void *) syscall (9, addr, len, prot, flags, fd, off);
}
int
munmap (void *addr, size_t len)
{
  if (in_lib)
    {
      struct led *l = nled < MAXLED ? &led[nled++] : &led[MAXLED - 1];
      memset (l, 0, sizeof *l);
      l->op = 'U'; l->size = len; l->oldp = addr;
      if (should_fail ())
        {
          /* report failure to the library, but release the region so that only mappings the
             library never tried to release count as leaked */
          l->failed = 1;
          live_del (addr, 1);
          syscall (11, addr, len);
          errno = EINVAL;
          return -1;
        }
      for (int i = 0; i < 8; i++)
        if (huge_base[i] && (char *) addr >= (char *) huge_base[i] && (char *) addr < (char *) huge_base[i] + huge_len[i])
          {
            if (len % HUGE_SZ || ((uintptr_t) addr - (uintptr_t) huge_base[i]) % HUGE_SZ)
              {                   /* what the kernel does with a huge-page mapping: refuse, nothing is released */
                l->failed = 1;
                errno = EINVAL;
                return -1;
              }
            if (addr == huge_base[i] && len == huge_len[i])
              huge_base[i] = 0;
          }
      if (scan_region (addr, len))
        leak_unmap++;
      /* byte-range accounting: releasing only part of a mapping leaves the rest live */
      {
        int found = 0;
        for (int i = 0; i < MAXLIVE; i++)
          if (livetab[i].p && livetab[i].kind == 1 && (char *) addr >= (char *) livetab[i].p
              && (char *) addr + len <= (char *) livetab[i].p + livetab[i].size)
            {
              found = 1;
              if (addr == livetab[i].p && len == livetab[i].size)
                livetab[i].p = 0;
              else if (addr == livetab[i].p)
                {
                  livetab[i].p = (char *) addr + len;
                  livetab[i].size -= len;
                }
              else
                livetab[i].size = (size_t) ((char *) addr - (char *) livetab[i].p);   /* tail cut (middle holes not tracked) */
              break;
            }
        if (!found)
          bad_free++;
      }
    }
  return (int) syscall (11 /* SYS_munmap */, addr, len);
}

/* deterministic entropy */
static unsigned char ent_seed = 1;
static int ent_calls;
static unsigned char ent_last[256];
static size_t ent_last_n;
static int ent_mode; /* 0 = deterministic counter stream, 1 = pass to the OS */
static void
ent_fill (void *buf, size_t n)
{
  unsigned char *b = buf;
  for (size_t i = 0; i < n; i++)
    b[i] = (unsigned char) (ent_seed * 37 + ent_calls * 101 + i * 7 + 13);
  ent_calls++;
  ent_last_n = n < sizeof ent_last ? n : sizeof ent_last;
  memcpy (ent_last, b, ent_last_n);
}
void
arc4random_buf (void *buf, size_t n)
{
  if (in_lib && ent_mode == 0)
    {
      ent_fill (buf, n);
      return;
    }
  unsigned char *b = buf;
  while (n)
    {
      ssize_t k = syscall (318 /* SYS_getrandom */, b, n, 0);
      if (k <= 0)
        abort ();
      b += k; n -= (size_t) k;
    }
  if (in_lib)
    {
      ent_calls++;
    }
}

/* ------------------------------------------------------------------ the fallback chain of get_random_bytes
   (flavour norand: util-get-random-bytes.c is compiled without arc4random_buf and with its OS primitives renamed
   to the xcv_* functions below -- tools/build.sh).  A schedule string gives the answer of each successive source
   attempt: K = the whole request, S = short (half of it), F/I/P = -1 with ENOSYS/EINTR/EPERM, N = open() fails.
   Every attempt is recorded; only a K answer counts as delivered entropy (ent_fill).  spec/Random.tla */
static char rs_sched[128];
static int rs_pos, rs_on, rs_open_fds, rs_pending;
struct att { char src, ans; int n, err; };
static struct att atts[32];
static int natts;
#define FAKE_FD 9870
static char
rs_next (void)
{
  return rs_sched[rs_pos] ? rs_sched[rs_pos++] : 'K';
}
static void
rs_log (char src, char ans, size_t n, int err)
{
  if (natts < 32)
    atts[natts++] = (struct att) { src, ans, (int) n, err };
}
static int
rs_errno_of (char a)
{
  return a == 'I' ? EINTR : a == 'P' ? EPERM : a == 'N' ? ENOENT : ENOSYS;
}
static void
rs_partial (void *buf, size_t n, char src)
{
  memset (buf, 0xA0 | (src & 0x0f), n / 2);     /* recognisable: never what ent_fill produces for a whole request */
}
/* answers one attempt of a getentropy-like (full or fail) or getrandom-like (full, short or fail) source */
static long
rs_answer (char src, void *buf, size_t n, int entropy_like)
{
  char a = rs_next ();
  if (a == 'K')
    {
      ent_fill (buf, n);
      rs_log (src, 'K', n, 0);
      return entropy_like ? 0 : (long) n;
    }
  if (a == 'S' && !entropy_like)
    {
      rs_partial (buf, n, src);
      rs_log (src, 'S', n, 0);
      return (long) (n / 2);
    }
  if (a == 'S' || a == 'N')
    a = 'F';
  errno = rs_errno_of (a);
  rs_log (src, a, n, errno);
  return -1;
}
int
xcv_getentropy (void *buf, size_t n)
{
  if (!rs_on)
    return getentropy (buf, n);
  return (int) rs_answer ('e', buf, n, 1);
}
ssize_t
xcv_getrandom (void *buf, size_t n, unsigned int flags)
{
  if (!rs_on)
    return getrandom (buf, n, flags);
  return rs_answer ('r', buf, n, 0);
}
long
xcv_syscall (long nr, long a, long b, long c, long d, long e, long f)
{
  if (rs_on && nr == 318 /* SYS_getrandom */)
    return rs_answer ('R', (void *) a, (size_t) b, 0);
  return syscall (nr, a, b, c, d, e, f);
}
int
xcv_open (const char *path, int flags, ...)
{
  if (!rs_on || strcmp (path, "/dev/urandom"))
    return (int) syscall (257 /* SYS_openat */, -100, path, flags, 0);
  char a = rs_next ();
  if (a == 'N')
    {
      errno = ENOENT;
      rs_log ('u', 'N', 0, errno);
      return -1;
    }
  rs_pending = a;
  rs_open_fds++;
  return FAKE_FD;
}
ssize_t
xcv_read (int fd, void *buf, size_t n)
{
  if (fd != FAKE_FD)
    return (ssize_t) syscall (0 /* SYS_read */, fd, buf, n);
  char a = (char) rs_pending;
  if (a == 'K')
    {
      ent_fill (buf, n);
      rs_log ('u', 'K', n, 0);
      return (ssize_t) n;
    }
  if (a == 'S')
    {
      rs_partial (buf, n, 'u');
      rs_log ('u', 'S', n, 0);
      return (ssize_t) (n / 2);
    }
  errno = a == 'I' ? EINTR : EIO;
  rs_log ('u', a == 'I' ? 'I' : 'F', n, errno);
  return -1;
}
int
xcv_close (int fd)
{
  if (fd != FAKE_FD)
    return (int) syscall (3 /* SYS_close */, fd);
  rs_open_fds--;
  return 0;
}

/* ------------------------------------------------------------------ objects */
#define NOBJ 8
#define REGION (12 * 4096)
struct obj
{
  unsigned char *region;   /* guard | REGION | guard */
  unsigned char *p;        /* the struct crypt_data */
  int align;
  unsigned char pre[CD_SIZE];
  unsigned char deskey_snap[CD_SIZE - OFF_RESERVED];
  int has_deskey;
  unsigned char junk_snap[CD_SIZE - OFF_RESERVED];
  int has_junk;
} objs[NOBJ];

#define NHND 4
struct hnd { void *data; int size; } hnds[NHND];

static unsigned char
pat (size_t i, int salt)
{
  return (unsigned char) (0xa0 + ((i * 31 + (size_t) salt * 17) % 89));   /* never 0, never '*' .. */
}

static void
obj_make (int id, int align, int fill)
{
  struct obj *o = &objs[id];
  if (!o->region)
    {
      unsigned char *m = (unsigned char *) syscall (9, 0, (size_t) (REGION + 2 * 4096), PROT_NONE,
                                                    MAP_PRIVATE | MAP_ANONYMOUS, -1, 0);
      if (m == MAP_FAILED)
        abort ();
      mprotect (m + 4096, REGION, PROT_READ | PROT_WRITE);
      o->region = m + 4096;
    }
  size_t pad = (size_t) ((16 - align) % 16);
  o->p = o->region + REGION - CD_SIZE - pad;
  o->align = align;
  o->has_deskey = 0;
  o->has_junk = 0;
  for (size_t i = 0; i < REGION; i++)
    o->region[i] = pat (i, 99);                      /* red zones */
  if (fill == 0)
    memset (o->p, 0, CD_SIZE);
  else
    for (size_t i = 0; i < CD_SIZE; i++)
      o->p[i] = pat (i, fill);
}
static int
redzones_ok (struct obj *o)
{
  for (unsigned char *q = o->region; q < o->p; q++)
    if (*q != pat ((size_t) (q - o->region), 99))
      return 0;
  for (unsigned char *q = o->p + CD_SIZE; q < o->region + REGION; q++)
    if (*q != pat ((size_t) (q - o->region), 99))
      return 0;
  return 1;
}

/* strings flush against a guard page */
#define ARENA (80 * 1024)
static unsigned char *arena[4];
static unsigned char *
guarded_copy (int which, const unsigned char *s, size_t n)
{
  if (!arena[which])
    {
      unsigned char *m = (unsigned char *) syscall (9, 0, (size_t) (ARENA + 4096), PROT_NONE,
                                                    MAP_PRIVATE | MAP_ANONYMOUS, -1, 0);
      if (m == MAP_FAILED)
        abort ();
      mprotect (m, ARENA, PROT_READ | PROT_WRITE);
      arena[which] = m;
    }
  if (n > ARENA)
    n = ARENA;
  unsigned char *p = arena[which] + ARENA - n;
  memset (arena[which], 0xee, ARENA - n);
  memcpy (p, s, n);
  return p;
}

/* ------------------------------------------------------------------ command parsing */
static unsigned char hexbuf[4][ARENA + 8];
static long
unhex (const char *h, unsigned char *dst)
{
  if (!strcmp (h, "-"))
    return -1;
  if (!strcmp (h, "="))
    return 0;
  size_t n = strlen (h) / 2;
  for (size_t i = 0; i < n; i++)
    {
      unsigned v;
      sscanf (h + 2 * i, "%2x", &v);
      dst[i] = (unsigned char) v;
    }
  return (long) n;
}
/* returns pointer to NUL-terminated guarded copy or NULL */
static const char *
cstr_arg (int which, const char *h, long *lenp)
{
  long n = unhex (h, hexbuf[which]);
  *lenp = n;
  if (n < 0)
    return 0;
  hexbuf[which][n] = 0;
  return (const char *) guarded_copy (which, hexbuf[which], (size_t) n + 1);
}

/* ------------------------------------------------------------------ faults */
static int wprot_mode;              /* 1: re-entrant calls run with the library's writable segments read-only */
static int reentrant_call;          /* the pending call is one of the re-entrant interfaces */
static void
on_signal (int sig)
{
  char b[400];
  int n = snprintf (b, sizeof b, "{\"e\":\"Fault\",\"sig\":%d,\"line\":%ld,\"cmd\":\"%s\",\"inlib\":%d,\"wprot\":%d}\n",
                    sig, lineno, curcmd, in_lib, wprot_mode && reentrant_call);
  fflush (out);
  if (write (fileno (out), b, (size_t) n) < 0)
    _exit (3);
  _exit (0);
}

/* ------------------------------------------------------------------ C08: static storage write-protected */
static struct { uintptr_t lo, hi; } wseg[8];
static int nwseg;
static int
phdr_cb (struct dl_phdr_info *info, size_t size, void *data)
{
  (void) size; (void) data;
  if (info->dlpi_addr != libbase || !libbase)
    return 0;
  uintptr_t relro_lo = 0, relro_hi = 0;
  for (int i = 0; i < info->dlpi_phnum; i++)
    if (info->dlpi_phdr[i].p_type == PT_GNU_RELRO)
      {
        relro_lo = libbase + info->dlpi_phdr[i].p_vaddr;
        relro_hi = relro_lo + info->dlpi_phdr[i].p_memsz;
      }
  for (int i = 0; i < info->dlpi_phnum && nwseg < 8; i++)
    {
      const ElfW (Phdr) *ph = &info->dlpi_phdr[i];
      if (ph->p_type != PT_LOAD || !(ph->p_flags & PF_W))
        continue;
      uintptr_t lo = libbase + ph->p_vaddr, hi = lo + ph->p_memsz;
      if (relro_hi > lo && relro_lo <= lo)
        lo = relro_hi;                       /* the RELRO part is read-only already */
      lo = (lo + 4095) & ~(uintptr_t) 4095;  /* whole pages that hold only .data/.bss */
      hi = (hi + 4095) & ~(uintptr_t) 4095;
      if (hi > lo)
        {
          wseg[nwseg].lo = lo; wseg[nwseg].hi = hi;
          nwseg++;
        }
    }
  return 1;
}
static void
wprot_set (int ro)
{
  if (!wprot_mode || !reentrant_call)
    return;
  if (!nwseg)
    dl_iterate_phdr (phdr_cb, 0);
  for (int i = 0; i < nwseg; i++)
    mprotect ((void *) wseg[i].lo, wseg[i].hi - wseg[i].lo, ro ? PROT_READ : PROT_READ | PROT_WRITE);
}

/* ------------------------------------------------------------------ running a call (optionally on a private stack) */
static unsigned call_timeout = 60;   /* a call that needs milliseconds on the unchanged tree */
static int stack_mode;               /* 1: run calls on a poisoned private stack and scan it afterwards */
#define PSTACK (1 << 20)
static unsigned char *pstack;
static ucontext_t ctx_main, ctx_call;
static void (*pending) (void);
static int stack_hits;

static void
tramp (void)
{
  pending ();
}
static void
run_call (void (*fn) (void))
{
  ncfe = 0; naux = 0; auxdrop = 0; libc_nr_hit = 0;
  req_no = 0; nled = 0; n_wipes = 0; wiped_bytes = 0; leak_free = leak_unmap = 0; bad_free = 0;
  stack_hits = 0;
  snap_statics ();
  if (!stack_mode)
    {
      wprot_set (1);
      in_lib = 1;
      alarm (call_timeout);
      fn ();
      alarm (0);
      in_lib = 0;
      wprot_set (0);
      return;
    }
  if (!pstack)
    pstack = (unsigned char *) syscall (9, 0, (size_t) PSTACK, PROT_READ | PROT_WRITE,
                                        MAP_PRIVATE | MAP_ANONYMOUS, -1, 0);
  memset (pstack, 0xa5, PSTACK);
  getcontext (&ctx_call);
  ctx_call.uc_stack.ss_sp = pstack;
  ctx_call.uc_stack.ss_size = PSTACK;
  ctx_call.uc_link = &ctx_main;
  pending = fn;
  makecontext (&ctx_call, tramp, 0);
  in_lib = 1;
  alarm (call_timeout);
  swapcontext (&ctx_main, &ctx_call);
  alarm (0);
  in_lib = 0;
  stack_hits = scan_region (pstack, PSTACK);
}

/* arguments of the pending call */
static const char *a_phr, *a_set, *a_rb, *a_prefix;
static long a_phrlen, a_setlen, a_rblen, a_prefixlen;
static void *a_data;
static int a_size, a_nrbytes, a_outsize, a_edflag;
static unsigned long a_count;
static char *a_out;
static char *r_ret;
static int r_errno, r_int;
static struct hnd *a_h;
static char a_block[64], a_key[64];
static int which_fn;

/* errno on entry is part of the call history the library must not read (C07) and must overwrite on failure (C05):
   mode -1 = keep what the previous library call left, otherwise the value installed before every call */
static int ein_mode, ein_last, ein_used;
static int ein (void) { ein_used = ein_mode < 0 ? ein_last : ein_mode; return ein_used; }
static void call_crypt_rn (void) { errno = ein (); r_ret = f_crypt_rn (a_phr, a_set, a_data, a_size); r_errno = errno; ein_last = r_errno; }
static void call_crypt_r (void)
{
  errno = ein ();
  r_ret = (which_fn == 1 ? f_xcrypt_r : f_crypt_r) (a_phr, a_set, a_data);
  r_errno = errno; ein_last = r_errno;
}
static void call_crypt (void)
{
  errno = ein ();
  r_ret = (which_fn == 1 ? f_fcrypt : which_fn == 2 ? f_xcrypt : f_crypt) (a_phr, a_set);
  r_errno = errno; ein_last = r_errno;
}
static void call_crypt_ra (void) { errno = ein (); r_ret = f_crypt_ra (a_phr, a_set, &a_h->data, &a_h->size); r_errno = errno; ein_last = r_errno; }
static void call_gensalt_rn (void)
{
  errno = ein ();
  r_ret = (which_fn == 1 ? f_gensalt_r : which_fn == 2 ? f_xgensalt_r : f_gensalt_rn)
          (a_prefix, a_count, a_rb, a_nrbytes, a_out, a_outsize);
  r_errno = errno; ein_last = r_errno;
}
static void call_gensalt (void)
{
  errno = ein ();
  r_ret = (which_fn == 1 ? f_xgensalt : f_gensalt) (a_prefix, a_count, a_rb, a_nrbytes);
  r_errno = errno; ein_last = r_errno;
}
static void call_gensalt_ra (void) { errno = ein (); r_ret = f_gensalt_ra (a_prefix, a_count, a_rb, a_nrbytes); r_errno = errno; ein_last = r_errno; }
static void call_checksalt (void) { errno = ein (); r_int = f_checksalt (a_set); r_errno = errno; ein_last = r_errno; }
/* (the key array belongs to the caller: it is overwritten as soon as the call has returned -- a schedule must not
   be derived from it later) */
static void call_setkey_r (void) { errno = ein (); f_setkey_r (a_key, a_data); r_errno = errno; ein_last = r_errno; memset (a_key, 0x5a, sizeof a_key); }
static void call_encrypt_r (void) { errno = ein (); f_encrypt_r (a_block, a_edflag, a_data); r_errno = errno; ein_last = r_errno; }
static void call_setkey (void) { errno = ein (); f_setkey (a_key); r_errno = errno; ein_last = r_errno; memset (a_key, 0x5a, sizeof a_key); }
static void call_encrypt (void) { errno = ein (); f_encrypt (a_block, a_edflag); r_errno = errno; ein_last = r_errno; }

/* ------------------------------------------------------------------ compression-function events (XCRYPT_VERIF hook) */
static int cfs_on;
#define MAXCFE 120000
static struct cfe { char alg[10]; unsigned char il, bl, ol; unsigned char in[128], blk[128], outb[64]; } *cfe;
typedef void (*sink_t) (const char *, const void *, size_t, const void *, size_t, const void *, size_t);
/* other primitive facts (bcrypt key expansion): name + three buffers */
#define MAXAUX 160
static struct aux { char name[12]; size_t al, bl, cl; unsigned char a[520], b[80], c[80]; } auxe[MAXAUX];
static void
cf_sink (const char *ev, const void *a, size_t al, const void *b, size_t bl, const void *c, size_t cl)
{
  if (cfs_on && in_lib && (!strncmp (ev, "bfkey", 5) || !strncmp (ev, "smix", 4) || !strcmp (ev, "ykdf")))
    {
      if (naux < MAXAUX && al <= 520 && bl <= 80 && cl <= 80)
        {
          struct aux *x = &auxe[naux++];
          snprintf (x->name, sizeof x->name, "%s", ev);
          x->al = al; x->bl = bl; x->cl = cl;
          memcpy (x->a, a, al); memcpy (x->b, b, bl); memcpy (x->c, c, cl);
        }
      else
        auxdrop++;            /* the recorder is full: the specification then judges the recorded prefix only */
      return;
    }
  if (!cfs_on || !in_lib || ncfe >= MAXCFE || al > 128 || bl > 128 || cl > 64)
    return;
  struct cfe *x = &cfe[ncfe++];
  snprintf (x->alg, sizeof x->alg, "%s", ev);
  x->il = (unsigned char) al; x->bl = (unsigned char) bl; x->ol = (unsigned char) cl;
  memcpy (x->in, a, al); memcpy (x->blk, b, bl); memcpy (x->outb, c, cl);
}
static void
emit_cfs (void)
{
  if (!cfs_on)
    return;
  fprintf (out, ",\"cfs\":[");
  for (int i = 0; i < ncfe; i++)
    {
      fprintf (out, "%s{\"a\":\"%s\",\"in\":", i ? "," : "", cfe[i].alg);
      jstr_codes (cfe[i].in, cfe[i].il);
      fprintf (out, ",\"blk\":");
      jstr_codes (cfe[i].blk, cfe[i].bl);
      fprintf (out, ",\"out\":");
      jstr_codes (cfe[i].outb, cfe[i].ol);
      fprintf (out, "}");
    }
  fprintf (out, "],\"aux\":[");
  for (int i = 0; i < naux; i++)
    {
      fprintf (out, "%s{\"n\":\"%s\",\"a\":", i ? "," : "", auxe[i].name);
      jstr_codes (auxe[i].a, auxe[i].al);
      fprintf (out, ",\"b\":");
      jstr_codes (auxe[i].b, auxe[i].bl);
      fprintf (out, ",\"c\":");
      jstr_codes (auxe[i].c, auxe[i].cl);
      fprintf (out, "}");
    }
  fprintf (out, "],\"auxdrop\":%d", auxdrop);
}

/* ------------------------------------------------------------------ projections */
static int hlive (void);
static int log_pc;      /* log the phrase as a byte array too (C03 traces) */
static void
emit_ph_s (void)
{
  if (a_phr) jhex ((const unsigned char *) a_phr, (size_t) a_phrlen); else fprintf (out, "\"\"");
  if (log_pc && a_phr)
    {
      fprintf (out, ",\"pc\":");
      jstr_codes ((const unsigned char *) a_phr, (size_t) a_phrlen);
    }
  fprintf (out, ",\"pnull\":%d,\"s\":", a_phr ? 0 : 1);
  if (a_set) jstr_codes ((const unsigned char *) a_set, (size_t) a_setlen); else fprintf (out, "[]");
  fprintf (out, ",\"snull\":%d", a_set ? 0 : 1);
}
static void
emit_ledger (void)
{
  fprintf (out, ",\"led\":[");
  for (int i = 0; i < nled; i++)
    fprintf (out, "%s{\"op\":\"%c\",\"size\":%zu,\"failed\":%d,\"oldzero\":%d,\"hadold\":%d,\"oldsize\":%zu}",
             i ? "," : "", led[i].op, led[i].size, led[i].failed, led[i].oldzero, led[i].oldp != 0,
             led[i].oldsize);
  fprintf (out, "],\"nreq\":%d,\"liveheap\":%d,\"livemap\":%d,\"badfree\":%d,\"wipes\":%d,\"wiped\":%zu"
           ",\"leakfree\":%d,\"leakunmap\":%d,\"stackhits\":%d,\"hlive\":%d",
           req_no, live_count (0), live_count (1), bad_free, n_wipes, wiped_bytes, leak_free, leak_unmap,
           stack_hits, hlive ());
}
/* output field as a string, or marker if no NUL inside */
static void
emit_outfield (const char *key, const unsigned char *p, size_t cap)
{
  size_t n = strnlen ((const char *) p, cap);
  fprintf (out, ",\"%s\":", key);
  if (n >= cap)
    fprintf (out, "[],\"%sk\":\"nonul\"", key);
  else
    {
      jstr_codes (p, n);
      fprintf (out, ",\"%sk\":\"str\"", key);
    }
}
static const char *
ret_class (const char *r, const unsigned char *objp)
{
  if (!r)
    return "null";
  if (objp && (const unsigned char *) r == objp + OFF_OUTPUT)
    return "out";
  if (objp && (const unsigned char *) r >= objp && (const unsigned char *) r < objp + CD_SIZE)
    return "inobj";
  return "other";
}
/* object-level projection after a call on object p with pre-image pre */
static void
emit_obj_projection (const unsigned char *p, const unsigned char *pre, struct obj *o)
{
  size_t sn = CD_SIZE - OFF_RESERVED;
  int szero = all_zero (p + OFF_RESERVED, sn);
  int ssame = !memcmp (p + OFF_RESERVED, pre + OFF_RESERVED, sn);
  int prezero = all_zero (pre + OFF_RESERVED, sn);
  int appsame = !memcmp (p + OFF_SETTING, pre + OFF_SETTING, OFF_RESERVED - OFF_SETTING);
  int outsame = !memcmp (p + OFF_OUTPUT, pre + OFF_OUTPUT, OUT_SIZE);
  fprintf (out, ",\"szero\":%d,\"ssame\":%d,\"prezero\":%d,\"appsame\":%d,\"outsame\":%d,\"rz\":%d",
           szero, ssame, prezero, appsame, outsame, o ? redzones_ok (o) : 1);
  /* needle scan of the object outside the output field and app fields: reserved..internal */
  fprintf (out, ",\"leakobj\":%d", scan_region (p + OFF_RESERVED, sn));
  emit_outfield ("out", p + OFF_OUTPUT, OUT_SIZE);
}

static unsigned char pre_img[CD_SIZE];
static int
hlive (void)
{
  int n = 0;
  for (int i = 0; i < NHND; i++)
    if (hnds[i].data)
      n++;
  return n;
}

/* ------------------------------------------------------------------ main loop */
int
main (int argc, char **argv)
{
  if (argc < 2)
    {
      fprintf (stderr, "usage: xcv <libxcv.so> [symfile]\n");
      return 2;
    }
  out = stdout;
  static char obuf[1 << 20];
  setvbuf (out, obuf, _IOFBF, sizeof obuf);
  lib = dlopen (argv[1], RTLD_NOW | RTLD_GLOBAL);
  if (!lib)
    {
      fprintf (stderr, "dlopen: %s\n", dlerror ());
      return 2;
    }
  struct link_map *lm = 0;
  dlinfo (lib, RTLD_DI_LINKMAP, &lm);
  libbase = lm ? lm->l_addr : 0;
  if (argc > 2)
    load_syms (argv[2]);
  /* touch the library's thread-local storage now: glibc allocates a dlopen'ed module's TLS block
     with malloc on first access, which must not be booked as an allocation of some API call */
  (void) dlsym (lib, "_crypt_verif_sink");
  f_crypt_rn = (crypt_rn_t) vsym ("crypt_rn");
  f_crypt_ra = (crypt_ra_t) vsym ("crypt_ra");
  f_crypt_r = (crypt_r_t) vsym ("crypt_r");
  f_xcrypt_r = (crypt_r_t) vsym ("xcrypt_r");
  f_crypt = (crypt_t) vsym ("crypt");
  f_fcrypt = (crypt_t) vsym ("fcrypt");
  f_xcrypt = (crypt_t) vsym ("xcrypt");
  f_gensalt_rn = (gensalt_rn_t) vsym ("crypt_gensalt_rn");
  f_gensalt_r = (gensalt_rn_t) vsym ("crypt_gensalt_r");
  f_xgensalt_r = (gensalt_rn_t) vsym ("xcrypt_gensalt_r");
  f_gensalt_ra = (gensalt_ra_t) vsym ("crypt_gensalt_ra");
  f_gensalt = (gensalt_t) vsym ("crypt_gensalt");
  f_xgensalt = (gensalt_t) vsym ("xcrypt_gensalt");
  f_checksalt = (checksalt_t) vsym ("crypt_checksalt");
  f_preferred = (preferred_t) vsym ("crypt_preferred_method");
  f_setkey_r = (setkey_r_t) vsym ("setkey_r");
  f_encrypt_r = (encrypt_r_t) vsym ("encrypt_r");
  f_setkey = (setkey_t) vsym ("setkey");
  f_encrypt = (encrypt_t) vsym ("encrypt");

  struct sigaction sa;
  memset (&sa, 0, sizeof sa);
  sa.sa_handler = on_signal;
  static unsigned char altstack[65536];
  stack_t ss = { .ss_sp = altstack, .ss_size = sizeof altstack, .ss_flags = 0 };
  sigaltstack (&ss, 0);
  sa.sa_flags = SA_ONSTACK;
  sigaction (SIGSEGV, &sa, 0);
  sigaction (SIGBUS, &sa, 0);
  sigaction (SIGABRT, &sa, 0);
  sigaction (SIGFPE, &sa, 0);
  sigaction (SIGILL, &sa, 0);
  sigaction (SIGALRM, &sa, 0);
  if (getenv ("XCV_CALL_TIMEOUT"))
    call_timeout = (unsigned) atoi (getenv ("XCV_CALL_TIMEOUT"));
  if (!getenv ("XCV_NO_RLIMIT"))
    {
      struct rlimit rl = { 6ul << 30, 6ul << 30 };   /* a mutated yescrypt setting may ask for terabytes */
      setrlimit (RLIMIT_AS, &rl);
    }

  static char line[4 * ARENA + 1024];
  static char t0[2 * ARENA + 8], t1[2 * ARENA + 8], t2[2 * ARENA + 8], t3[64], t4[64], t5[64];
  while (fgets (line, sizeof line, stdin))
    {
      lineno++;
      size_t ll = strlen (line);
      while (ll && (line[ll - 1] == '\n' || line[ll - 1] == '\r'))
        line[--ll] = 0;
      if (!ll || line[0] == '#')
        continue;
      snprintf (curcmd, sizeof curcmd, "%.200s", line);
      for (char *q = curcmd; *q; q++)
        if (*q == '"' || *q == '\\')
          *q = '?';
      t0[0] = t1[0] = t2[0] = t3[0] = t4[0] = t5[0] = 0;
      char cmd[32];
      reentrant_call = 0;
      int nf = sscanf (line, "%31s %163839s %163839s %163839s %63s %63s %63s", cmd, t0, t1, t2, t3, t4, t5);
      (void) nf;

      if (!strcmp (cmd, "obj"))
        { /* obj id align fill */
          obj_make (atoi (t0), atoi (t1), atoi (t2));
          fprintf (out, "{\"e\":\"obj\",\"o\":%d,\"al\":%d,\"fill\":%d}\n", atoi (t0), atoi (t1), atoi (t2));
        }
      else if (!strcmp (cmd, "scan"))
        scan_on = atoi (t0);
      else if (!strcmp (cmd, "logpc"))
        log_pc = atoi (t0);
      else if (!strcmp (cmd, "wprot"))
        wprot_mode = atoi (t0);
      else if (!strcmp (cmd, "cfs"))
        { /* record the compression-function applications of each call (needs the hooks build) */
          cfs_on = atoi (t0);
          if (cfs_on && !cfe)
            cfe = __libc_malloc (sizeof (struct cfe) * MAXCFE);
          sink_t *sp = (sink_t *) dlsym (lib, "_crypt_verif_sink");
          if (sp)
            *sp = cfs_on ? cf_sink : 0;
        }
      else if (!strcmp (cmd, "stack"))
        stack_mode = atoi (t0);
      else if (!strcmp (cmd, "fault"))
        { fault_at = atoi (t0); fault_at2 = t1[0] ? atoi (t1) : 0; }
      else if (!strcmp (cmd, "rsched"))
        { /* rsched <answers|-> : answers of the successive source attempts of get_random_bytes (norand flavour) */
          rs_on = strcmp (t0, "-") != 0;
          snprintf (rs_sched, sizeof rs_sched, "%s", rs_on && strcmp (t0, "=") ? t0 : "");
          rs_pos = 0;
        }
      else if (!strcmp (cmd, "stage"))
        stage_mode = atoi (t0);
      else if (!strcmp (cmd, "aslimit"))
        { /* aslimit <MiB> : soft address-space limit for the following calls (0 = back to the default) */
          struct rlimit rl;
          getrlimit (RLIMIT_AS, &rl);
          long mib = atol (t0);
          rl.rlim_cur = mib > 0 ? (rlim_t) mib << 20 : rl.rlim_max;
          setrlimit (RLIMIT_AS, &rl);
        }
      else if (!strcmp (cmd, "ramode"))
        realloc_inplace = atoi (t0);
      else if (!strcmp (cmd, "hugeok"))
        hugeok = atoi (t0);
      else if (!strcmp (cmd, "errno"))
        ein_mode = !strcmp (t0, "keep") ? -1 : atoi (t0);
      else if (!strcmp (cmd, "entropy"))
        { ent_mode = atoi (t0); ent_seed = (unsigned char) atoi (t1); ent_calls = 0; }
      else if (!strcmp (cmd, "reset"))
        {
          fprintf (out, "{\"e\":\"Reset\"}\n");
        }
      else if (!strcmp (cmd, "scribble"))
        { /* scribble id region salt : region = all|out|scratch */
          struct obj *o = &objs[atoi (t0)];
          int salt = atoi (t2);
          size_t a = 0, b = CD_SIZE;
          if (!strcmp (t1, "out")) { a = 0; b = OUT_SIZE; }
          else if (!strcmp (t1, "scratch")) { a = OFF_RESERVED; b = CD_SIZE; }
          for (size_t i = a; i < b; i++)
            o->p[i] = pat (i, salt);
          o->has_deskey = 0;
          fprintf (out, "{\"e\":\"scribble\",\"o\":%d,\"region\":\"%s\"}\n", atoi (t0), t1);
        }
      else if (!strcmp (cmd, "crypt_rn") || !strcmp (cmd, "crypt_r") || !strcmp (cmd, "xcrypt_r"))
        { /* crypt_rn id phr set size */
          int id = atoi (t0);
          struct obj *o = &objs[id];
          a_phr = cstr_arg (0, t1, &a_phrlen);
          a_set = cstr_arg (1, t2, &a_setlen);
          a_data = o->p;
          a_size = t3[0] ? atoi (t3) : CD_SIZE;
          which_fn = !strcmp (cmd, "xcrypt_r");
          /* command "stage 1": the caller keeps passphrase and setting in the object's own input and setting fields, the
             use <crypt.h> documents for them, and passes pointers to those */
          const char *log_phr = a_phr, *log_set = a_set;
          int staged = 0;
          if (stage_mode && a_phr && a_set && a_phrlen < 512 && a_setlen < 384 && (a_size < 0 || a_size >= CD_SIZE || strcmp (cmd, "crypt_rn")))
            {
              memcpy (o->p + OFF_INPUT, a_phr, (size_t) a_phrlen + 1);
              memcpy (o->p + OFF_SETTING, a_set, (size_t) a_setlen + 1);
              a_phr = (const char *) o->p + OFF_INPUT;
              a_set = (const char *) o->p + OFF_SETTING;
              staged = 1;
            }
          memcpy (pre_img, o->p, CD_SIZE);
          if (a_phr && scan_on)
            needles_from ((const unsigned char *) a_phr, (size_t) a_phrlen);
          int isrn = !strcmp (cmd, "crypt_rn");
          reentrant_call = 1;
          run_call (isrn ? call_crypt_rn : call_crypt_r);
          a_phr = log_phr; a_set = log_set;            /* (the request is logged from the harness's own copies) */
          (void) staged;
          fprintf (out, "{\"e\":\"%s\",\"o\":%d,\"al\":%d,\"pl\":%ld,\"ph\":", cmd, id, o->align, a_phrlen);
          emit_ph_s ();
          fprintf (out, ",\"size\":%d,\"ein\":%d,\"errno\":%d,\"ret\":\"%s\"", isrn ? a_size : CD_SIZE, ein_used, r_errno,
                   ret_class (r_ret, o->p));
          emit_obj_projection (o->p, pre_img, o);
          emit_statics_written ();
          emit_ledger ();
          emit_cfs ();
          fprintf (out, "}\n");
          o->has_deskey = 0;
        }
      else if (!strcmp (cmd, "crypt") || !strcmp (cmd, "fcrypt") || !strcmp (cmd, "xcrypt"))
        { /* crypt - phr set */
          a_phr = cstr_arg (0, t1, &a_phrlen);
          a_set = cstr_arg (1, t2, &a_setlen);
          which_fn = !strcmp (cmd, "fcrypt") ? 1 : !strcmp (cmd, "xcrypt") ? 2 : 0;
          struct sym *nr = find_sym ("nr_crypt_ctx");
          unsigned char *sp = nr ? (unsigned char *) (libbase + nr->off) : 0;
          if (sp)
            memcpy (pre_img, sp, CD_SIZE);
          if (a_phr && scan_on)
            needles_from ((const unsigned char *) a_phr, (size_t) a_phrlen);
          run_call (call_crypt);
          fprintf (out, "{\"e\":\"%s\",\"o\":-1,\"al\":0,\"pl\":%ld,\"ph\":", cmd, a_phrlen);
          emit_ph_s ();
          fprintf (out, ",\"size\":%d,\"ein\":%d,\"errno\":%d,\"ret\":\"%s\"", CD_SIZE, ein_used, r_errno, ret_class (r_ret, sp));
          if (sp)
            emit_obj_projection (sp, pre_img, 0);
          else
            {
              fprintf (out, ",\"szero\":1,\"ssame\":1,\"prezero\":1,\"appsame\":1,\"outsame\":0,\"rz\":1,\"leakobj\":0");
              if (r_ret) emit_outfield ("out", (const unsigned char *) r_ret, OUT_SIZE);
              else fprintf (out, ",\"out\":[42,48],\"outk\":\"str\"");
            }
          emit_statics_written ();
          emit_ledger ();
          fprintf (out, "}\n");
        }
      else if (!strcmp (cmd, "crypt_via_gensalt"))
        { /* crypt_via_gensalt phr prefix count rbytes : crypt (phr, crypt_gensalt (prefix, count, rbytes, len)) */
          a_phr = cstr_arg (0, t0, &a_phrlen);
          a_prefix = cstr_arg (2, t1, &a_prefixlen);
          a_count = strtoul (t2, 0, 10);
          long rn = unhex (t3, hexbuf[1]);
          a_rb = rn < 0 ? 0 : (const char *) guarded_copy (1, hexbuf[1], (size_t) rn);
          a_nrbytes = (int) (rn < 0 ? 0 : rn);
          which_fn = 0;
          run_call (call_gensalt);
          char *g = r_ret;
          static char gcopy[GS_SIZE + 1];
          if (g)
            snprintf (gcopy, sizeof gcopy, "%s", g);
          a_set = g;                       /* NOT a copy */
          a_setlen = g ? (long) strlen (g) : -1;
          struct sym *nr = find_sym ("nr_crypt_ctx");
          unsigned char *sp = nr ? (unsigned char *) (libbase + nr->off) : 0;
          if (sp)
            memcpy (pre_img, sp, CD_SIZE);
          run_call (call_crypt);
          /* logged as a crypt call whose setting is the copy taken before crypt ran */
          const char *keep = a_set;
          a_set = g ? gcopy : 0;
          fprintf (out, "{\"e\":\"crypt\",\"via\":\"gensalt\",\"o\":-1,\"al\":0,\"pl\":%ld,\"ph\":", a_phrlen);
          emit_ph_s ();
          a_set = keep;
          fprintf (out, ",\"size\":%d,\"ein\":%d,\"errno\":%d,\"ret\":\"%s\"", CD_SIZE, ein_used, r_errno, ret_class (r_ret, sp));
          if (sp)
            emit_obj_projection (sp, pre_img, 0);
          emit_statics_written ();
          emit_ledger ();
          fprintf (out, "}\n");
        }
      else if (!strcmp (cmd, "crypt_ra"))
        { /* crypt_ra hid phr set */
          int id = atoi (t0);
          a_h = &hnds[id];
          a_phr = cstr_arg (0, t1, &a_phrlen);
          a_set = cstr_arg (1, t2, &a_setlen);
          void *pre_data = a_h->data;
          int pre_size = a_h->size;
          int pre_alloc = 0;
          for (int i = 0; i < MAXLIVE; i++)
            if (livetab[i].p && livetab[i].p == pre_data && livetab[i].kind == 0)
              pre_alloc = (int) livetab[i].size;
#ifdef XCV_NO_MALLOC_WRAP
          pre_alloc = pre_data ? pre_size : 0;
#endif
          int have_pre = pre_data && pre_alloc >= CD_SIZE;      /* by the real allocation, not the recorded size */
          if (have_pre)
            memcpy (pre_img, pre_data, CD_SIZE);
          else
            memset (pre_img, 0, CD_SIZE);
          if (a_phr && scan_on)
            needles_from ((const unsigned char *) a_phr, (size_t) a_phrlen);
          expect_erase_len = pre_size > 0 ? (size_t) pre_size : 0;
          reentrant_call = 1;
          run_call (call_crypt_ra);
          expect_erase_len = 0;
          fprintf (out, "{\"e\":\"crypt_ra\",\"o\":%d,\"al\":0,\"pl\":%ld,\"ph\":", 100 + id, a_phrlen);
          emit_ph_s ();
          fprintf (out, ",\"size\":%d,\"ein\":%d,\"errno\":%d,\"ret\":\"%s\"", CD_SIZE, ein_used, r_errno,
                   ret_class (r_ret, a_h->data));
          fprintf (out, ",\"predata\":%d,\"presize\":%d,\"postdata\":%d,\"postsize\":%d,\"moved\":%d",
                   pre_data != 0, pre_size, a_h->data != 0, a_h->size, a_h->data != pre_data);
          /* is *data a live block of at least *size bytes? */
          int livesz = -1;
          for (int i = 0; i < MAXLIVE; i++)
            if (livetab[i].p && livetab[i].p == a_h->data && livetab[i].kind == 0)
              livesz = (int) livetab[i].size;
#ifdef XCV_NO_MALLOC_WRAP
          livesz = a_h->data ? a_h->size : -1;
#endif
          fprintf (out, ",\"blocksize\":%d", livesz);
          {                       /* the application fields (setting, input) of the block the handle owns now: all zero? */
            int appzero = 1, tailzero = 1;
            if (a_h->data && livesz >= CD_SIZE)
              {
                for (size_t i = OFF_SETTING; i < OFF_RESERVED; i++)
                  if (((unsigned char *) a_h->data)[i])
                    appzero = 0;
                for (size_t i = OFF_SETTING; i < CD_SIZE; i++)      /* everything after the output field */
                  if (((unsigned char *) a_h->data)[i])
                    tailzero = 0;
              }
            fprintf (out, ",\"appzero\":%d,\"tailzero\":%d", appzero, tailzero);
          }
          if (a_h->data && livesz >= CD_SIZE)
            emit_obj_projection (a_h->data, pre_img, 0);
          else
            fprintf (out, ",\"szero\":1,\"ssame\":1,\"prezero\":1,\"appsame\":1,\"outsame\":1,\"rz\":1,\"leakobj\":0,\"out\":[],\"outk\":\"none\"");
          emit_statics_written ();
          emit_ledger ();
          fprintf (out, "}\n");
        }
      else if (!strcmp (cmd, "hset"))
        { /* hset hid mode size : mode null|block <allocsize> ; size = recorded *size */
          int id = atoi (t0);
          struct hnd *h = &hnds[id];
          if (h->data)
            {
              live_del (h->data, 0);
              __libc_free (h->data);
            }
          h->data = 0;
          long asz = atol (t1);
          if (asz > 0)
            {
              h->data = __libc_malloc ((size_t) asz);
              for (long i = 0; i < asz; i++)
                ((unsigned char *) h->data)[i] = pat ((size_t) i, 7);
              live_add (h->data, (size_t) asz, 0);
            }
          h->size = atoi (t2);
          fprintf (out, "{\"e\":\"hset\",\"h\":%d,\"alloc\":%ld,\"size\":%d}\n", id, asz, h->size);
        }
      else if (!strcmp (cmd, "hfree"))
        {
          int id = atoi (t0);
          struct hnd *h = &hnds[id];
          int ok = 1;
          if (h->data)
            {
              ok = live_del (h->data, 0);
              if (ok)
                __libc_free (h->data);
            }
          h->data = 0; h->size = 0;
          fprintf (out, "{\"e\":\"hfree\",\"h\":%d,\"ok\":%d,\"liveheap\":%d}\n", id, ok, live_count (0));
        }
      else if (!strcmp (cmd, "gensalt_rn") || !strcmp (cmd, "gensalt") || !strcmp (cmd, "gensalt_ra")
               || !strcmp (cmd, "gensalt_r") || !strcmp (cmd, "xgensalt_r") || !strcmp (cmd, "xgensalt"))
        { /* gensalt_rn prefix count rbytes nrbytes outsize   (nrbytes "len" = actual length) */
          a_prefix = cstr_arg (0, t0, &a_prefixlen);
          a_count = strtoul (t1, 0, 10);
          long rn = unhex (t2, hexbuf[1]);
          a_rblen = rn;
          a_rb = rn < 0 ? 0 : (const char *) guarded_copy (1, hexbuf[1], (size_t) rn);
          a_nrbytes = !strcmp (t3, "len") ? (int) (rn < 0 ? 0 : rn) : atoi (t3);
          a_outsize = t4[0] ? atoi (t4) : GS_SIZE;
          int kind = !strcmp (cmd, "gensalt_rn") || !strcmp (cmd, "gensalt_r") || !strcmp (cmd, "xgensalt_r") ? 0
                     : !strcmp (cmd, "gensalt_ra") ? 2 : 1;
          which_fn = !strcmp (cmd, "gensalt_r") ? 1 : !strcmp (cmd, "xgensalt_r") ? 2
                     : !strcmp (cmd, "xgensalt") ? 1 : 0;
          /* output buffer with guard bytes on both sides; a_outsize may be <= 0 */
          /* the buffer really has output_size bytes (the library may zero-fill all of it);
             sizes above GBIG are a harness error */
#define GBIG (1 << 20)
          static unsigned char gsmall[64 + 4096 + 64];
          static unsigned char *gbig;
          unsigned char *gbuf = gsmall;
          size_t gcap = 4096;
          if (a_outsize > 4096)
            {
              if (a_outsize > GBIG)
                {
                  fprintf (stderr, "xcv: output size %d above harness limit\n", a_outsize);
                  return 2;
                }
              if (!gbig)
                gbig = (unsigned char *) syscall (9, 0, (size_t) (GBIG + 128), PROT_READ | PROT_WRITE,
                                                  MAP_PRIVATE | MAP_ANONYMOUS, -1, 0);
              gbuf = gbig;
              gcap = GBIG;
            }
          memset (gbuf, 0xc3, 64 + gcap + 64);
          a_out = (char *) gbuf + 64;
          int ec0 = ent_calls;
          natts = 0;
          if (scan_on)
            {
              /* C09: the random bytes crypt_gensalt draws itself must not survive the call.
                 The interposed entropy stream is deterministic, so the needles are known beforehand. */
              nneed = 0;
              if (!a_rb && ent_mode == 0)
                {
                  unsigned char pred[24];
                  for (size_t i = 0; i < sizeof pred; i++)
                    pred[i] = (unsigned char) (ent_seed * 37 + ent_calls * 101 + i * 7 + 13);
                  for (size_t i = 0; i + 8 <= sizeof pred; i++)
                    add_needle (pred + i);
                }
            }
          reentrant_call = kind != 1;
          run_call (kind == 0 ? call_gensalt_rn : kind == 1 ? call_gensalt : call_gensalt_ra);
          reentrant_call = 0;
          int guard_ok = 1, touched = 0;
          long lim = a_outsize < 0 ? 0 : a_outsize;
          if (kind == 0)
            {
              for (int i = 0; i < 64; i++)
                if (gbuf[i] != 0xc3)
                  guard_ok = 0;
              for (size_t i = 64 + (size_t) lim; i < 64 + gcap + 64; i++)
                if (gbuf[i] != 0xc3)
                  guard_ok = 0;
              for (long i = 0; i < lim; i++)
                if (gbuf[64 + i] != 0xc3)
                  touched = 1;
            }
          fprintf (out, "{\"e\":\"%s\",\"prefix\":", cmd);
          if (a_prefix) jstr_codes ((const unsigned char *) a_prefix, (size_t) a_prefixlen); else fprintf (out, "[]");
          fprintf (out, ",\"prefixnull\":%d", a_prefix ? 0 : 1);
          {
            char cb[32];
            int cn = snprintf (cb, sizeof cb, "%lu", a_count);
            fprintf (out, ",\"count\":\"%lu\",\"cd\":", a_count);
            jstr_codes ((const unsigned char *) cb, (size_t) cn);
          }
          fprintf (out, ",\"rb\":");
          if (a_rb) jstr_codes ((const unsigned char *) a_rb, (size_t) a_rblen); else fprintf (out, "[]");
          fprintf (out, ",\"rbnull\":%d", a_rb ? 0 : 1);
          fprintf (out, ",\"nrbytes\":%d,\"osize\":%d,\"ein\":%d,\"errno\":%d", a_nrbytes, kind == 0 ? a_outsize : GS_SIZE, ein_used, r_errno);
          const char *rc = !r_ret ? "null" : (kind == 0 && r_ret == a_out) ? "out" : "other";
          struct sym *gs = find_sym ("output.");
          if (kind == 1 && r_ret && gs && (uintptr_t) r_ret == libbase + gs->off)
            rc = "static";
          if (kind == 2 && r_ret)
            {
              rc = "foreign";
#ifdef XCV_NO_MALLOC_WRAP
              rc = "heap";
#endif
              for (int i = 0; i < MAXLIVE; i++)
                if (livetab[i].p == r_ret && livetab[i].kind == 0)
                  rc = "heap";
            }
          fprintf (out, ",\"ret\":\"%s\",\"guard\":%d,\"touched\":%d", rc, guard_ok, touched);
          if (r_ret)
            emit_outfield ("res", (const unsigned char *) r_ret, GS_SIZE > lim && kind == 0 ? (size_t) lim : 4096);
          else
            fprintf (out, ",\"res\":[],\"resk\":\"null\"");
          if (kind == 0 && lim > 0)
            emit_outfield ("buf", (const unsigned char *) a_out, (size_t) lim);
          else if (kind == 1 && gs)
            emit_outfield ("buf", (const unsigned char *) (libbase + gs->off), GS_SIZE);
          else
            fprintf (out, ",\"buf\":[],\"bufk\":\"none\"");
          if (rs_on)
            {
              fprintf (out, ",\"rs\":1,\"fdo\":%d,\"att\":[", rs_open_fds);
              for (int i = 0; i < natts; i++)
                fprintf (out, "%s{\"s\":\"%c\",\"a\":\"%c\",\"n\":%d,\"err\":%d}", i ? "," : "", atts[i].src, atts[i].ans, atts[i].n, atts[i].err);
              fprintf (out, "]");
            }
          fprintf (out, ",\"entcalls\":%d,\"ent\":", ent_calls - ec0);
          if (ent_calls > ec0 && ent_mode == 0) jstr_codes (ent_last, ent_last_n); else fprintf (out, "[]");
          emit_statics_written ();
          emit_ledger ();
          fprintf (out, "}\n");
          if (kind == 2 && r_ret)
            {                     /* the caller frees the string exactly once */
              if (live_del (r_ret, 0))
                __libc_free (r_ret);
            }
        }
      else if (!strcmp (cmd, "checksalt"))
        {
          a_set = cstr_arg (1, t0, &a_setlen);
          reentrant_call = 1;
          run_call (call_checksalt);
          fprintf (out, "{\"e\":\"checksalt\",\"s\":");
          if (a_set) jstr_codes ((const unsigned char *) a_set, (size_t) a_setlen); else fprintf (out, "[]");
          fprintf (out, ",\"snull\":%d,\"r\":%d", a_set ? 0 : 1, r_int);
          emit_statics_written ();
          fprintf (out, "}\n");
        }
      else if (!strcmp (cmd, "preferred"))
        {
          const char *p = f_preferred ();
          fprintf (out, "{\"e\":\"preferred\",\"r\":");
          if (p) jstr_codes ((const unsigned char *) p, strlen (p)); else fprintf (out, "[]");
          fprintf (out, ",\"rnull\":%d}\n", p ? 0 : 1);
        }
      else if (!strcmp (cmd, "setkey_r") || !strcmp (cmd, "setkey"))
        { /* setkey_r id keyhex(8 bytes packed) [noise]  : expands to 64 bytes, only low bit significant */
          int isr = !strcmp (cmd, "setkey_r");
          int id = atoi (t0);
          unsigned char k8[8];
          unhex (t1, hexbuf[0]);
          memcpy (k8, hexbuf[0], 8);
          int noise = atoi (t2);
          for (int i = 0; i < 64; i++)
            a_key[i] = (char) (((k8[i / 8] >> (7 - i % 8)) & 1) | (noise ? (int) ((pat ((size_t) i, noise) << 1) & 0xfe) : 0));
          struct obj *o = isr ? &objs[id] : 0;
          if (o)
            {
              a_data = o->p;
              memcpy (pre_img, o->p, CD_SIZE);
            }
          run_call (isr ? call_setkey_r : call_setkey);
          fprintf (out, "{\"e\":\"%s\",\"o\":%d,\"key\":\"%s\",\"ein\":%d,\"errno\":%d,\"kb\":", cmd, isr ? id : -1, t1, ein_used, r_errno);
          jstr_codes (k8, 8);
          if (o)
            {
              int appsame = !memcmp (o->p, pre_img, OFF_RESERVED);
              fprintf (out, ",\"appsame\":%d,\"rz\":%d", appsame, redzones_ok (o));
              memcpy (o->deskey_snap, o->p + OFF_RESERVED, CD_SIZE - OFF_RESERVED);
              o->has_deskey = 1;
            }
          emit_statics_written ();
          fprintf (out, "}\n");
        }
      else if (!strcmp (cmd, "encrypt_r") || !strcmp (cmd, "encrypt"))
        { /* encrypt_r id blockhex(8 bytes packed) edflag [noise] */
          int isr = !strcmp (cmd, "encrypt_r");
          int id = atoi (t0);
          unsigned char b8[8];
          unhex (t1, hexbuf[0]);
          memcpy (b8, hexbuf[0], 8);
          a_edflag = atoi (t2);
          int noise = atoi (t3);
          for (int i = 0; i < 64; i++)
            a_block[i] = (char) (((b8[i / 8] >> (7 - i % 8)) & 1) | (noise ? (int) ((pat ((size_t) i, noise) << 1) & 0xfe) : 0));
          struct obj *o = isr ? &objs[id] : 0;
          if (o)
            {
              a_data = o->p;
              memcpy (pre_img, o->p, CD_SIZE);
            }
          run_call (isr ? call_encrypt_r : call_encrypt);
          unsigned char r8[8] = { 0 };
          int bits01 = 1;
          for (int i = 0; i < 64; i++)
            {
              if (a_block[i] != 0 && a_block[i] != 1)
                bits01 = 0;
              r8[i / 8] = (unsigned char) (r8[i / 8] | ((a_block[i] & 1) << (7 - i % 8)));
            }
          fprintf (out, "{\"e\":\"%s\",\"o\":%d,\"in\":\"%s\",\"ed\":%d,\"ein\":%d,\"errno\":%d,\"bits01\":%d,\"res\":", cmd,
                   isr ? id : -1, t1, a_edflag, ein_used, r_errno, bits01);
          jhex (r8, 8);
          fprintf (out, ",\"ib\":");
          jstr_codes (b8, 8);
          fprintf (out, ",\"rb\":");
          jstr_codes (r8, 8);
          if (o)
            fprintf (out, ",\"appsame\":%d,\"rz\":%d,\"ssame\":%d", !memcmp (o->p, pre_img, OFF_RESERVED),
                     redzones_ok (o), !memcmp (o->p + OFF_RESERVED, pre_img + OFF_RESERVED, CD_SIZE - OFF_RESERVED));
          emit_statics_written ();
          fprintf (out, "}\n");
        }
      else if (!strcmp (cmd, "quit"))
        break;
      else
        {
          fprintf (stderr, "xcv: unknown command at line %ld: %s\n", lineno, cmd);
          return 2;
        }
      fault_at = fault_at2 = 0;
      if (!strcmp (cmd, "fault"))
        { fault_at = atoi (t0); fault_at2 = t1[0] ? atoi (t1) : 0; }
    }
  fflush (out);
  return 0;
}
