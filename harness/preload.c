/* preload - LD_PRELOAD recorder: wraps the public hashing API so that the executions of the
 * repository's OWN test programs are recorded and can be validated against the specification
 * (DESIGN.md 2.3).  Events are appended to $XCV_PRELOAD_OUT in the format of harness/xcv.c
 * (the driver pads the fields this recorder cannot observe).  */
#define _GNU_SOURCE
#include <dlfcn.h>
#include <errno.h>
#include <stdio.h>
#include <stdlib.h>
#include <string.h>

#define CD_SIZE 32768
#define OFF_SETTING 384
#define OFF_RESERVED 1280

static FILE *out;
static int depth;           /* crypt() calls crypt_r() inside the library: record the outer call only */
static void *objs[256];
static int nobjs;

static void
init (void)
{
  if (out)
    return;
  const char *p = getenv ("XCV_PRELOAD_OUT");
  out = fopen (p ? p : "/dev/null", "a");
  if (!out)
    out = stderr;
}
static int
objid (void *p)
{
  for (int i = 0; i < nobjs; i++)
    if (objs[i] == p)
      return 300 + i;
  if (nobjs < 256)
    objs[nobjs++] = p;
  return 300 + nobjs - 1;
}
static void
codes (const char *s)
{
  fputc ('[', out);
  for (size_t i = 0; s && s[i]; i++)
    fprintf (out, i ? ",%u" : "%u", (unsigned char) s[i]);
  fputc (']', out);
}
static int
all_zero (const unsigned char *p, size_t n)
{
  for (size_t i = 0; i < n; i++)
    if (p[i])
      return 0;
  return 1;
}
static void
log_hash (const char *fn, const char *phr, const char *set, void *data, int size, const unsigned char *pre, char *ret, int err, int o)
{
  init ();
  fprintf (out, "{\"e\":\"%s\",\"pre\":1,\"o\":%d,\"pl\":%ld,\"ph\":\"", fn, o, phr ? (long) strlen (phr) : -1L);
  for (size_t i = 0; phr && phr[i]; i++)
    fprintf (out, "%02x", (unsigned char) phr[i]);
  fprintf (out, "\",\"pnull\":%d,\"s\":", phr ? 0 : 1);
  codes (set);
  fprintf (out, ",\"snull\":%d,\"size\":%d,\"errno\":%d", set ? 0 : 1, size, err);
  const unsigned char *d = data;
  int full = data && size >= CD_SIZE;
  const char *field = data && size > 0 ? (const char *) d : 0;       /* the output field, if there is one */
  int retout = ret && field && ret == field;
  fprintf (out, ",\"ret\":\"%s\"", !ret ? "null" : (retout || !data) ? "out" : "other");
  if (full && pre)
    fprintf (out, ",\"szero\":%d,\"ssame\":%d,\"prezero\":%d,\"appsame\":%d,\"outsame\":%d",
             all_zero (d + OFF_RESERVED, CD_SIZE - OFF_RESERVED), !memcmp (d + OFF_RESERVED, pre + OFF_RESERVED, CD_SIZE - OFF_RESERVED),
             all_zero (pre + OFF_RESERVED, CD_SIZE - OFF_RESERVED), !memcmp (d + OFF_SETTING, pre + OFF_SETTING, OFF_RESERVED - OFF_SETTING),
             !memcmp (d, pre, 384));
  else
    fprintf (out, ",\"szero\":1,\"ssame\":1,\"prezero\":1,\"appsame\":1,\"outsame\":0");
  const char *shown = ret ? ret : (field && size >= 3 ? field : 0);
  if (shown && strnlen (shown, 384) < 384)
    {
      fprintf (out, ",\"out\":");
      codes (shown);
      fprintf (out, ",\"outk\":\"str\"");
    }
  else
    fprintf (out, ",\"out\":[],\"outk\":\"%s\"", shown ? "nonul" : "none");
  fprintf (out, "}\n");
  fflush (out);
}

#define REAL(name) static __typeof__ (name) *real; if (!real) real = dlsym (RTLD_NEXT, #name)
char *crypt_rn (const char *, const char *, void *, int);
char *crypt_ra (const char *, const char *, void **, int *);
char *crypt_r (const char *, const char *, void *);
char *crypt (const char *, const char *);
char *crypt_gensalt_rn (const char *, unsigned long, const char *, int, char *, int);
int crypt_checksalt (const char *);

char *
crypt_rn (const char *phr, const char *set, void *data, int size)
{
  REAL (crypt_rn);
  static unsigned char pre[CD_SIZE];
  if (!depth && data && size >= CD_SIZE)
    memcpy (pre, data, CD_SIZE);
  depth++;
  errno = 0;
  char *r = real (phr, set, data, size);
  int e = errno;
  depth--;
  if (!depth)
    log_hash ("crypt_rn", phr, set, data, size, pre, r, e, objid (data));
  errno = e;
  return r;
}
char *
crypt_r (const char *phr, const char *set, void *data)
{
  REAL (crypt_r);
  static unsigned char pre[CD_SIZE];
  if (!depth)
    memcpy (pre, data, CD_SIZE);
  depth++;
  errno = 0;
  char *r = real (phr, set, data);
  int e = errno;
  depth--;
  if (!depth)
    log_hash ("crypt_r", phr, set, data, CD_SIZE, pre, r, e, objid (data));
  errno = e;
  return r;
}
char *
crypt (const char *phr, const char *set)
{
  REAL (crypt);
  depth++;
  errno = 0;
  char *r = real (phr, set);
  int e = errno;
  depth--;
  if (!depth)
    log_hash ("crypt", phr, set, 0, CD_SIZE, 0, r, e, -1);
  errno = e;
  return r;
}
char *
crypt_ra (const char *phr, const char *set, void **data, int *size)
{
  REAL (crypt_ra);
  depth++;
  errno = 0;
  char *r = real (phr, set, data, size);
  int e = errno;
  depth--;
  if (!depth)     /* logged as a crypt_rn on the block the handle owns afterwards (no pre-image) */
    log_hash ("crypt_rn", phr, set, *data, *data ? CD_SIZE : 0, 0, r, e, objid (data));
  errno = e;
  return r;
}
int
crypt_checksalt (const char *set)
{
  REAL (crypt_checksalt);
  int r = real (set);
  init ();
  fprintf (out, "{\"e\":\"checksalt\",\"s\":");
  codes (set);
  fprintf (out, ",\"snull\":%d,\"r\":%d,\"sw\":[]}\n", set ? 0 : 1, r);
  fflush (out);
  return r;
}
