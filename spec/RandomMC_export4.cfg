SPECIFICATION Spec
CONSTANT Compiled <- MCLinux
CONSTANT MaxCalls = 4
CONSTANT Lens = {16}
CONSTANT LogHist = TRUE
INVARIANT Export
INVARIANT TrueMeansFull FalseMeansNotFull NoFdLeak FalseSetsErrno
CHECK_DEADLOCK FALSE
