SPECIFICATION Spec
INVARIANT DomainSound Idem OnlySetting ShapeLaw TokenLaw
CHECK_DEADLOCK FALSE
