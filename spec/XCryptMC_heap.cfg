SPECIFICATION Spec
CONSTANT LogHist = FALSE
CONSTANT MCObj = {}
CONSTANT MCHnd = {"h1"}
CONSTANT MCBlk = {1, 2, 3}
CONSTANT MCTokenFirst = TRUE
CONSTANT MCFailureTokens = TRUE
CONSTANT MCReqs = {"okA", "hashA", "okB", "badchar", "star0", "methfail", "longphrase"}
VIEW View
INVARIANT TypeOK FailClosed NoStale TokenShape WipedIffValidated ResultIsFunction GrowErasedFirst
INVARIANT OneOwner NoDangling SizeHonest HandleSound
CHECK_DEADLOCK FALSE
