----------------------------- MODULE ChecksaltMC -----------------------------
(***************************************************************************)
(* crypt_checksalt / crypt_preferred_method at model level (C18): TLC      *)
(* enumerates EVERY string over the byte classes the specification         *)
(* distinguishes, up to length 4 (one initial state per string), and       *)
(* checks the laws that relate Checksalt to Dispatch, BadChars, Outcome.   *)
(***************************************************************************)
EXTENDS Settings
E == AllMethods
\* class representatives: forbidden, every character occurring in a tag, another DES-salt character,
\* another printable character; and a second member of the non-singleton classes
Reps  == {58, 36, 95, 49, 50, 51, 53, 54, 55, 97, 98, 100, 103, 104, 109, 115, 120, 121, 81, 35}
Other == [c \in Reps |-> CASE c = 58 -> 200 [] c = 81 -> 48 [] c = 35 -> 126 [] OTHER -> c]
Strs(n) == UNION {[1..k -> Reps] : k \in 0..n}

VARIABLE s
Init == s \in Strs(4)
Next == UNCHANGED s
Spec == Init /\ [][Next]_s

m == Dispatch(E, s)
\* INVALID exactly for empty, ill-charactered or unrecognised settings
Exactly == (Checksalt(E, s) = SALT_INVALID) <=> (s = <<>> \/ BadChars(s) \/ m = "none")
\* OK exactly for the strong methods, LEGACY for every other recognised method
Classes == (Checksalt(E, s) # SALT_INVALID) =>
              /\ (Checksalt(E, s) = SALT_OK <=> m \in Strong)
              /\ (Checksalt(E, s) = SALT_METHOD_LEGACY <=> m \notin Strong)
\* any setting crypt can hash is never INVALID
CanHash == \A pl \in {0, 5, 9} : Outcome(E, s, pl).k \in {"ok", "either"} => Checksalt(E, s) # SALT_INVALID
\* depends only on tag and character set: appending or replacing non-forbidden material after the tag changes nothing
TagOnly == (m # "none" /\ ~BadChars(s) /\ m \notin {"bigcrypt", "descrypt"}) =>
              \A t \in {<<81>>, <<36, 35>>, <<95, 95, 95>>} : Checksalt(E, s \o t) = Checksalt(E, s)
\* members of one class are indistinguishable
ClassInvariance == Checksalt(E, [i \in 1..Len(s) |-> Other[s[i]]]) = Checksalt(E, s)
PreferredOK == LET d == DefaultMethod(E) IN d # "none" /\ Checksalt(E, PrefixOf[d]) = SALT_OK
=============================================================================
