-------------------------------- MODULE Config --------------------------------
(***************************************************************************)
(* Every --enable-hashes selection (C19) at model level: TLC takes each of *)
(* the 2^16 - 1 non-empty subsets E of the 16 methods as an initial state  *)
(* and checks that the dispatch table, the default method and the          *)
(* per-method behaviour of Settings/Gensalt restricted to E are coherent.  *)
(***************************************************************************)
EXTENDS Settings
G == INSTANCE Gensalt

CONSTANT Sel      \* "all": every non-empty selection;  "edge": at most 2 or at least 15 methods (quick tier)
VARIABLE E
Init == /\ E \in (SUBSET Methods) \ {{}}
        /\ (Sel = "all" \/ Cardinality(E) <= 2 \/ Cardinality(E) >= 15)
Next == UNCHANGED E
Spec == Init /\ [][Next]_E

\* one representative accepted setting per method (cheap parameters)
Rep == [m \in Methods |->
  CASE m = "yescrypt" -> S_y \o <<106, 55, 53, 36, 97, 98, 99, 100>>
    [] m = "gost_yescrypt" -> S_gy \o <<106, 55, 53, 36, 97, 98, 99, 100>>
    [] m = "scrypt" -> S_7 \o <<53, 54, 46, 46, 46, 46, 47, 46, 46, 46, 46, 97, 98>>
    [] m \in {"bcrypt", "bcrypt_a", "bcrypt_x", "bcrypt_y"} -> PrefixOf[m] \o <<48, 52, 36>> \o [i \in 1..22 |-> 97]
    [] m = "sha512crypt" -> S_6 \o <<97, 98>> [] m = "sha256crypt" -> S_5 \o <<97, 98>>
    [] m = "sha1crypt" -> S_sha1d \o <<50, 48, 36, 97, 98>> [] m = "sunmd5" -> S_md5 \o <<36, 97, 98>>
    [] m = "md5crypt" -> S_1 \o <<97, 98>> [] m = "nt" -> S_3 [] m = "bsdicrypt" -> <<95, 47, 46, 46, 46, 97, 98, 99, 100>>
    [] m = "bigcrypt" -> <<97, 98>> \o [i \in 1..22 |-> 46] [] m = "descrypt" -> <<97, 98>>]
All == Methods

\* the default prefix is the first enabled DEFAULT candidate in hashes.conf order; none if there is none
DefaultIsStrongestEnabled ==
  LET d == DefaultMethod(E) IN
  /\ (d = "none" <=> E \cap DefaultCand = {})
  /\ (d # "none" => d \in E /\ d \in Strong
                    /\ \A i, j \in 1..Len(ConfOrder) : (ConfOrder[i] = d /\ j < i /\ ConfOrder[j] \in DefaultCand) => ConfOrder[j] \notin E)
\* a disabled tagged method is refused by crypt, checksalt and gensalt exactly like an unknown prefix
DisabledUnreachable ==
  \A m \in Tagged \ E :
     /\ Dispatch(E, Rep[m]) = "none" /\ Outcome(E, Rep[m], 5).k = "fail" /\ Outcome(E, Rep[m], 5).err = EINVAL
     /\ Checksalt(E, Rep[m]) = SALT_INVALID
     /\ G!MethodOf(E, FALSE, PrefixOf[m]) = "none"
\* the DES pair: with neither enabled, traditional settings are unknown
DesPair ==
  /\ ((E \cap {"bigcrypt", "descrypt"}) = {} => Dispatch(E, Rep["descrypt"]) = "none")
  /\ ("bigcrypt" \in E => Dispatch(E, Rep["descrypt"]) = "bigcrypt")
  /\ (("descrypt" \in E /\ "bigcrypt" \notin E) => Dispatch(E, Rep["bigcrypt"]) = "descrypt")
  \* bigcrypt without descrypt: long phrase + short setting is refused, and gensalt emits the dotted form
  /\ (("bigcrypt" \in E /\ "descrypt" \notin E) =>
        /\ Outcome(E, Rep["descrypt"], 9).k = "fail" /\ Outcome(E, Rep["descrypt"], 8).k = "ok"
        /\ Len(G!GenMethod(E, "bigcrypt", <<48>>, <<1, 2>>, 2, 192).str) = 14)
\* an enabled method behaves as in the full build
EnabledUnchanged ==
  \A m \in E \cap Tagged :
     /\ Dispatch(E, Rep[m]) = m
     /\ Parse(E, m, Rep[m], 5) = Parse(All, m, Rep[m], 5)
     /\ Checksalt(E, Rep[m]) = Checksalt(All, Rep[m])
     /\ G!GenMethod(E, m, <<48>>, [i \in 1..32 |-> i], 32, 192) = G!GenMethod(All, m, <<48>>, [i \in 1..32 |-> i], 32, 192)
NoDefault == DefaultMethod(E) = "none" => G!Gensalt(E, TRUE, <<>>, <<48>>, FALSE, [i \in 1..32 |-> i], 32, <<>>, 192).ok = FALSE
=============================================================================
