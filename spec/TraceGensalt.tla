---------------------------- MODULE TraceGensalt ----------------------------
(***************************************************************************)
(* Trace specification for crypt_gensalt / crypt_gensalt_rn /              *)
(* crypt_gensalt_ra calls recorded from the real library.  Each event is   *)
(* judged by the predicates of C10-C13 (and the entropy-erasure clause of  *)
(* C09); the exact model Gensalt!Gensalt is compared as a divergence.      *)
(* Relations between events (same request through another entry point,     *)
(* the next smaller output_size, a one-bit change of the random bytes)     *)
(* are given as indexes by the driver and VERIFIED here before use.        *)
(***************************************************************************)
EXTENDS Naturals, Integers, Sequences, FiniteSets, TLC, Json, IOUtils
S == INSTANCE Settings
G == INSTANCE Gensalt

T == ndJsonDeserialize(IOEnv.XCV_TRACE)
OutFile == IOEnv.XCV_VERDICT
VARIABLES l, viol, div, cnt
vars == <<l, viol, div, cnt>>

Enabled == IF Len(T) > 0 /\ T[1].e = "config" THEN {T[1].E[i] : i \in 1..Len(T[1].E)} ELSE S!AllMethods
IsGs(e) == e \in {"gensalt_rn", "gensalt_r", "xgensalt_r", "gensalt", "xgensalt", "gensalt_ra"}
Success(ev) == ev.ret # "null" /\ ev.resk = "str"
Size(ev) == ev.osize
SameReq(a, b) == a.prefix = b.prefix /\ a.prefixnull = b.prefixnull /\ a.cd = b.cd /\ a.rb = b.rb
                 /\ a.rbnull = b.rbnull /\ a.nrbytes = b.nrbytes
MethodOfEv(ev) == G!MethodOf(Enabled, ev.prefixnull = 1, ev.prefix)
\* the bytes the method saw: the caller's (nrbytes of them) or the interposed entropy
SeenBytes(ev) == IF ev.rbnull = 1 THEN ev.ent ELSE ev.rb
Model(ev) == G!Gensalt(Enabled, ev.prefixnull = 1, ev.prefix, ev.cd, ev.rbnull = 1, ev.rb,
                       ev.nrbytes, ev.ent, Size(ev))
\* enough caller bytes are really there for the model to index (a short buffer with a larger
\* nrbytes is a caller contract violation and is not generated)
WellFormed(ev) == ev.rbnull = 1 \/ ev.nrbytes <= Len(ev.rb)
\* the exact model can be evaluated: with auto-entropy it needs the bytes the interposed OS source handed out
Evaluable(ev) == ev.rbnull = 0 \/ MethodOfEv(ev) = "none" \/ Len(ev.ent) >= G!AutoBytes[MethodOfEv(ev)]

ModelAgrees(ev, mo) ==
  IF ~mo.ok THEN ~Success(ev)
  ELSE /\ Success(ev)
       /\ CASE mo.kind = "exact" -> ev.res = mo.str
            [] mo.kind = "sha1" ->
                 LET r == ev.res
                     e == S!DigitRunEnd(r, 7) IN
                 S!StartsWith(r, mo.str) /\ S!At(r, e) = 36 /\ S!Drop(r, e) = mo.tail
            [] OTHER -> S!StartsWith(ev.res, mo.str)

\* ---- C10 ----------------------------------------------------------------
C10_Safe(ev, m) ==
  Success(ev) =>
    /\ S!PasswdSafe(ev.res) /\ Len(ev.res) < G!GENSALT_OUTPUT_SIZE
    /\ S!StartsWith(ev.res, S!PrefixOf[m])
    /\ S!Dispatch(Enabled, ev.res) = m
    /\ S!Checksalt(Enabled, ev.res) # S!SALT_INVALID
    /\ LET p == S!Parse(Enabled, m, ev.res, 5) IN
         /\ p.k # "fail"
         \* kept literally in the hash (for the traditional DES settings: the two salt characters)
         /\ (p.k = "ok" => IF m \in {"bigcrypt", "descrypt"} THEN S!StartsWith(ev.res, p.canon)
                           ELSE S!StartsWith(p.canon \o S!SepOf(m), ev.res))
A_Deterministic(ev) ==
  (ev.gprev > 0 /\ ev.gprev < l /\ IsGs(T[ev.gprev].e) /\ SameReq(T[ev.gprev], ev)
     /\ Size(T[ev.gprev]) >= G!GENSALT_OUTPUT_SIZE /\ Size(ev) >= G!GENSALT_OUTPUT_SIZE /\ ev.rbnull = 0)
C10_Deterministic(ev) ==
  A_Deterministic(ev)
  => (Success(ev) = Success(T[ev.gprev]) /\ (Success(ev) => ev.res = T[ev.gprev].res))
C10_Where(ev) ==
  Success(ev) => CASE ev.e \in {"gensalt", "xgensalt"} -> ev.ret = "static"
                   [] ev.e = "gensalt_ra" -> ev.ret = "heap"
                   [] OTHER -> ev.ret = "out"
\* C18: a NULL prefix produces exactly what the preferred method's prefix produces
A_NullIsPreferred(ev) ==
  (ev.nprev > 0 /\ ev.nprev < l /\ IsGs(T[ev.nprev].e) /\ ev.prefixnull = 1 /\ T[ev.nprev].prefixnull = 0
     /\ S!DefaultMethod(Enabled) # "none" /\ T[ev.nprev].prefix = S!PrefixOf[S!DefaultMethod(Enabled)]
     /\ T[ev.nprev].cd = ev.cd /\ T[ev.nprev].rb = ev.rb /\ T[ev.nprev].rbnull = 0 /\ ev.rbnull = 0
     /\ T[ev.nprev].nrbytes = ev.nrbytes /\ Size(T[ev.nprev]) = Size(ev))
C18_NullIsPreferred(ev) ==
  A_NullIsPreferred(ev)
  => (Success(ev) = Success(T[ev.nprev]) /\ ev.res = T[ev.nprev].res /\ (~Success(ev) => ev.errno = T[ev.nprev].errno))
\* ---- C11 ----------------------------------------------------------------
C11_Cost(ev, m) ==
  /\ (Success(ev) => (G!CostAgrees(m, ev.cd, ev.res) /\ G!MinCostOK(m, ev.res)))
  /\ (G!DocCost(m, ev.cd).k = "reject" => ~Success(ev))
  /\ ((~Success(ev) /\ G!DocCost(m, ev.cd).k = "reject" /\ Size(ev) >= G!GENSALT_OUTPUT_SIZE) => ev.errno = G!EINVAL)
\* an accepted count with plenty of random bytes and the documented buffer must succeed
C11_Accepts(ev, m) ==
  (G!DocCost(m, ev.cd).k # "reject" /\ Size(ev) >= G!GENSALT_OUTPUT_SIZE
     /\ (ev.rbnull = 1 \/ (ev.nrbytes >= 20 /\ ev.nrbytes <= 64)))
  => Success(ev)
\* ---- C12 ----------------------------------------------------------------
C12_Salt(ev, m) ==
  Success(ev) =>
    /\ (m # "nt" => Len(G!SaltField(m, ev.res)) > 0)
    /\ G!SaltBits(m, ev.res) >= G!MinSaltBits(m)
    /\ ((Size(ev) >= G!GENSALT_OUTPUT_SIZE /\ (ev.rbnull = 1 \/ ev.nrbytes >= 16)) =>
          G!SaltBits(m, ev.res) >= (IF ev.rbnull = 1 /\ m = "md5crypt" THEN 48 ELSE G!StdSaltBits(m)))
\* a one-bit change of the random bytes that the specification says is consumed changes the result
A_Flip(ev) ==
  (ev.fprev > 0 /\ ev.fprev < l /\ IsGs(T[ev.fprev].e) /\ Success(T[ev.fprev]) /\ Success(ev)
     /\ T[ev.fprev].prefix = ev.prefix /\ T[ev.fprev].cd = ev.cd /\ T[ev.fprev].nrbytes = ev.nrbytes
     /\ Size(T[ev.fprev]) = Size(ev) /\ T[ev.fprev].rb # ev.rb /\ Evaluable(ev) /\ Evaluable(T[ev.fprev])
     /\ LET a == Model(T[ev.fprev])  b == Model(ev) IN a.ok /\ b.ok /\ (a.str # b.str \/ a.tail # b.tail))
C12_Flip(ev) ==
  A_Flip(ev)
  => ev.res # T[ev.fprev].res
\* auto-entropy comes from the OS source and is what the salt encodes; two fresh draws differ
C12_Entropy(ev) ==
  /\ ((ev.rbnull = 1 /\ Success(ev) /\ MethodOfEv(ev) # "nt") => ev.entcalls >= 1)
  \* rbytes == NULL means "draw from the OS", whatever nrbytes says: an acceptable count and the documented buffer succeed
  /\ ((ev.rbnull = 1 /\ MethodOfEv(ev) # "none" /\ Size(ev) >= G!GENSALT_OUTPUT_SIZE
        /\ G!DocCost(MethodOfEv(ev), ev.cd).k # "reject") => Success(ev))
  /\ ((ev.fresh = 1 /\ ev.gprev > 0 /\ ev.gprev < l /\ IsGs(T[ev.gprev].e) /\ T[ev.gprev].fresh = 1 /\ Success(ev)
        /\ Success(T[ev.gprev]) /\ MethodOfEv(ev) # "nt") => ev.res # T[ev.gprev].res)
\* too few caller-supplied bytes for any salt: EINVAL -- never a salt from somewhere else.  (With an acceptable count and
\* the documented buffer the exact model can only fail with EINVAL for that reason.)
A_TooShort(ev, m) ==
  ev.rbnull = 0 /\ m # "none" /\ WellFormed(ev) /\ ev.nrbytes >= 0 /\ Size(ev) >= G!GENSALT_OUTPUT_SIZE
  /\ G!DocCost(m, ev.cd).k # "reject" /\ LET mo == Model(ev) IN ~mo.ok /\ mo.err = G!EINVAL
C12_TooShort(ev, m) == A_TooShort(ev, m) => (~Success(ev) /\ ev.errno = G!EINVAL)
\* "given 16 or more random bytes and a buffer of the documented size it has at least the method's standard size":
\* such a call SUCCEEDS (for an accepted count, and for as many bytes as the exact model can place in the buffer) --
\* what the salt then looks like is C12_Salt's business
A_StdSalt(ev, m) ==
  ev.rbnull = 0 /\ m # "none" /\ WellFormed(ev) /\ ev.nrbytes >= 16 /\ ev.nrbytes <= 256 /\ Size(ev) >= G!GENSALT_OUTPUT_SIZE
  /\ G!DocCost(m, ev.cd).k # "reject" /\ LET mo == Model(ev) IN mo.ok
C12_StdSalt(ev, m) == A_StdSalt(ev, m) => Success(ev)
\* bytes the caller supplied are the only source: the OS is asked only when rbytes is NULL
C12_NoAutoEntropy(ev) == ev.rbnull = 0 => ev.entcalls = 0
\* ---- C13 ----------------------------------------------------------------
C13_Local(ev) ==
  /\ ev.guard = 1
  /\ (Size(ev) <= 0 => ev.touched = 0 /\ ~Success(ev))
  /\ (Success(ev) => Len(ev.res) < Size(ev))
  /\ (~Success(ev) => ev.errno \in {G!EINVAL, G!ERANGE})
  /\ ((~Success(ev) /\ ev.e \in {"gensalt_rn", "gensalt_r", "xgensalt_r"}) =>
        CASE Size(ev) >= 3 -> ev.bufk = "str" /\ ev.buf = <<42, 48>>
          [] Size(ev) = 2 -> ev.bufk = "str" /\ ev.buf = <<42>>
          [] Size(ev) = 1 -> ev.bufk = "str" /\ ev.buf = <<>>
          [] OTHER -> TRUE)
  /\ (Size(ev) < 3 => (~Success(ev) /\ ev.errno = G!ERANGE))
\* success is monotone in output_size and shorter buffers receive a leading part
A_Monotone(ev) ==
  (ev.rbnull = 0 /\ ev.sprev > 0 /\ ev.sprev < l /\ IsGs(T[ev.sprev].e) /\ SameReq(T[ev.sprev], ev) /\ Size(T[ev.sprev]) < Size(ev)
     /\ Success(T[ev.sprev]))
C13_Monotone(ev) ==
  A_Monotone(ev)
  => (Success(ev) /\ S!StartsWith(ev.res, T[ev.sprev].res))
A_Full(ev) ==
  (ev.rbnull = 0 /\ ev.s192 > 0 /\ ev.s192 < l /\ IsGs(T[ev.s192].e) /\ SameReq(T[ev.s192], ev) /\ Size(T[ev.s192]) = G!GENSALT_OUTPUT_SIZE)
C13_Full(ev) ==
  A_Full(ev)
  => /\ ((Success(ev) /\ Size(ev) <= G!GENSALT_OUTPUT_SIZE) => (Success(T[ev.s192]) /\ S!StartsWith(T[ev.s192].res, ev.res)))
     \* sizes at or above the documented one receive the same result -- for up to 64 random bytes, for which the
     \* documented size is promised to suffice (with more bytes a larger buffer may legitimately succeed where 192 did not)
     /\ ((Size(ev) >= G!GENSALT_OUTPUT_SIZE /\ ev.nrbytes <= 64) => (Success(ev) = Success(T[ev.s192]) /\ (Success(ev) => ev.res = T[ev.s192].res)))
     /\ ((Size(ev) >= G!GENSALT_OUTPUT_SIZE /\ Success(T[ev.s192])) => (Success(ev) /\ ev.res = T[ev.s192].res))
\* CRYPT_GENSALT_OUTPUT_SIZE always suffices for up to 64 random bytes: never ERANGE there
C13_Enough(ev) ==
  (Size(ev) >= G!GENSALT_OUTPUT_SIZE /\ (ev.rbnull = 1 \/ ev.nrbytes <= 64)) => (Success(ev) \/ ev.errno # G!ERANGE)
\* ERANGE means "buffer too small": it is not the answer when the setting the exact model computes for this request
\* fits into the buffer that was given
C13_RangeMeansSmall(ev) ==
  (~Success(ev) /\ ev.errno = G!ERANGE /\ WellFormed(ev) /\ Evaluable(ev) /\ Size(ev) >= 3)
  => LET mo == Model(ev) IN ~mo.ok
\* ---- C09: drawn entropy is erased; C08/C04: statics ---------------------
C09_Erased(ev, m) == (ev.rbnull = 1 /\ m # "none" /\ ev.entcalls >= 1) => (ev.wipes >= 1 /\ ev.wiped >= G!AutoBytes[m] /\ ev.stackhits = 0)
AllowedSW(ev) == IF ev.e \in {"gensalt", "xgensalt"} THEN {"output.0"} ELSE {}
C04_Statics(ev) == \A i \in 1..Len(ev.sw) : ev.sw[i] \in AllowedSW(ev)
C14_RA(ev) == ev.e = "gensalt_ra" =>
                 ((ev.ret = "null" /\ ev.liveheap = ev.hlive) \/ (ev.ret = "heap" /\ ev.liveheap = ev.hlive + 1)) /\ ev.badfree = 0

\* vacuity guard: how often the antecedent of each relational predicate held (cnt.ant; tools/props.py REQUIRED_ANTS)
AntNames == {"Success", "Deterministic", "NullIsPreferred", "Flip", "EntropyFresh", "Monotone", "Full", "SmallSize", "CostReject",
             "AutoEntropy", "NonzeroErrno", "GensaltRA", "TooShort", "StdSalt"}
Ants(ev) ==
  LET m == MethodOfEv(ev) IN
  (IF Success(ev) THEN {"Success"} ELSE {}) \cup (IF A_Deterministic(ev) THEN {"Deterministic"} ELSE {})
  \cup (IF A_NullIsPreferred(ev) THEN {"NullIsPreferred"} ELSE {}) \cup (IF WellFormed(ev) /\ A_Flip(ev) THEN {"Flip"} ELSE {})
  \cup (IF ev.fresh = 1 /\ ev.gprev > 0 /\ ev.gprev < l /\ IsGs(T[ev.gprev].e) /\ T[ev.gprev].fresh = 1 THEN {"EntropyFresh"} ELSE {})
  \cup (IF A_Monotone(ev) THEN {"Monotone"} ELSE {}) \cup (IF A_Full(ev) THEN {"Full"} ELSE {})
  \cup (IF Size(ev) < 3 THEN {"SmallSize"} ELSE {})
  \cup (IF m # "none" /\ G!DocCost(m, ev.cd).k = "reject" THEN {"CostReject"} ELSE {})
  \cup (IF ev.rbnull = 1 /\ ev.entcalls >= 1 THEN {"AutoEntropy"} ELSE {})
  \cup (IF "ein" \in DOMAIN ev /\ ev.ein # 0 THEN {"NonzeroErrno"} ELSE {})
  \cup (IF ev.e = "gensalt_ra" THEN {"GensaltRA"} ELSE {})
  \cup (IF WellFormed(ev) /\ A_TooShort(ev, m) THEN {"TooShort"} ELSE {})
  \cup (IF A_StdSalt(ev, m) THEN {"StdSalt"} ELSE {})
AddAnts(f, a) == [n \in AntNames |-> f[n] + (IF n \in a THEN 1 ELSE 0)]
V(p, n) == [l |-> l, p |-> p, n |-> n]
Chk(ok, p, n) == IF ok THEN {} ELSE {V(p, n)}

JudgeGs(ev) ==
  LET m == MethodOfEv(ev) IN
  IF ~WellFormed(ev) THEN [viol |-> Chk(C13_Local(ev), "C13", "Local"), div |-> {}]
  ELSE
  [viol |->
     (IF m = "none" THEN Chk(~Success(ev), "C10", "UnknownPrefixAccepted")
      ELSE IF ~C10_Safe(ev, m)
        \* a "successful" result that is not even a well-formed setting of the method: the cost and salt readers
        \* below presuppose the method's field structure and are not applied to it
        \* (... nor does it carry the documented cost of an accepted count)
        THEN {V("C10", "Safe"), V("C13", "ValidSetting"), V("C12", "Salt")} \cup Chk(C09_Erased(ev, m), "C09", "EntropyErased")
             \cup (IF G!DocCost(m, ev.cd).k # "reject" THEN {V("C11", "Cost")} ELSE {})
        ELSE Chk(C11_Cost(ev, m), "C11", "Cost")
           \cup Chk(C11_Accepts(ev, m), "C11", "Accepts") \cup Chk(C12_Salt(ev, m), "C12", "Salt")
           \cup Chk(C09_Erased(ev, m), "C09", "EntropyErased"))
     \cup Chk(C10_Deterministic(ev), "C10", "Deterministic") \cup Chk(C10_Where(ev), "C10", "Where")
     \cup Chk(C18_NullIsPreferred(ev), "C18", "NullIsPreferred")
     \cup Chk(C12_Flip(ev), "C12", "Flip") \cup Chk(C12_Entropy(ev), "C12", "Entropy")
     \cup Chk(C12_TooShort(ev, m), "C12", "TooShort") \cup Chk(C12_NoAutoEntropy(ev), "C12", "NoAutoEntropy")
     \cup Chk(C12_StdSalt(ev, m), "C12", "StdSalt")
     \cup Chk(C13_Local(ev), "C13", "Local") \cup Chk(C13_Monotone(ev), "C13", "Monotone")
     \cup Chk(C13_Full(ev), "C13", "Full") \cup Chk(C13_Enough(ev), "C13", "Enough")
     \cup Chk(C13_RangeMeansSmall(ev), "C13", "RangeMeansSmall")
     \cup Chk(C04_Statics(ev), "C08", "Statics") \cup Chk(C14_RA(ev), "C14", "GensaltRA"),
   div |-> IF ev.fresh = 1 \/ ~Evaluable(ev) \/ (m # "none" /\ ~C10_Safe(ev, m)) \/ ModelAgrees(ev, Model(ev)) THEN {} ELSE {[l |-> l, d |-> "gensalt-model"]}]

Init == l = 1 /\ viol = {} /\ div = {} /\ cnt = [calls |-> 0, ok |-> 0, failed |-> 0, ant |-> [n \in AntNames |-> 0]]
Step ==
  /\ l <= Len(T)
  /\ l' = l + 1
  /\ LET ev == T[l] IN
     IF IsGs(ev.e) THEN
        LET j == JudgeGs(ev) IN
        /\ viol' = viol \cup j.viol
        /\ div' = div \cup j.div
        /\ cnt' = [cnt EXCEPT !.calls = @ + 1, !.ok = @ + (IF Success(ev) THEN 1 ELSE 0),
                               !.failed = @ + (IF Success(ev) THEN 0 ELSE 1),
                               !.ant = AddAnts(@, TLCEval(Ants(ev)))]
     ELSE IF ev.e = "Fault" THEN
        /\ viol' = viol \cup {V("C13", "Fault")}
        /\ UNCHANGED <<div, cnt>>
     ELSE UNCHANGED <<viol, div, cnt>>
Spec == Init /\ [][Step]_vars
Finish ==
  l <= Len(T) \/
  JsonSerialize(OutFile, [consumed |-> l - 1, lines |-> Len(T), viol |-> viol, div |-> div, cnt |-> cnt])
=============================================================================
