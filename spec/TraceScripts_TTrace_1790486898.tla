---- MODULE TraceScripts_TTrace_1790486898 ----
EXTENDS Sequences, TLCExt, TraceScripts, Toolbox, Naturals, TLC

_expression ==
    LET TraceScripts_TEExpression == INSTANCE TraceScripts_TEExpression
    IN TraceScripts_TEExpression!expression
----

_trace ==
    LET TraceScripts_TETrace == INSTANCE TraceScripts_TETrace
    IN TraceScripts_TETrace!trace
----

_inv ==
    ~(
        TLCGet("level") = Len(_TETrace)
        /\
        viol = ({})
        /\
        cnt = (0)
        /\
        l = (2)
    )
----

_init ==
    /\ l = _TETrace[1].l
    /\ cnt = _TETrace[1].cnt
    /\ viol = _TETrace[1].viol
----

_next ==
    /\ \E i,j \in DOMAIN _TETrace:
        /\ \/ /\ j = i + 1
              /\ i = TLCGet("level")
        /\ l  = _TETrace[i].l
        /\ l' = _TETrace[j].l
        /\ cnt  = _TETrace[i].cnt
        /\ cnt' = _TETrace[j].cnt
        /\ viol  = _TETrace[i].viol
        /\ viol' = _TETrace[j].viol

\* Uncomment the ASSUME below to write the states of the error trace
\* to the given file in Json format. Note that you can pass any tuple
\* to `JsonSerialize`. For example, a sub-sequence of _TETrace.
    \* ASSUME
    \*     LET J == INSTANCE Json
    \*         IN J!JsonSerialize("TraceScripts_TTrace_1790486898.json", _TETrace)

=============================================================================

 Note that you can extract this module `TraceScripts_TEExpression`
  to a dedicated file to reuse `expression` (the module in the 
  dedicated `TraceScripts_TEExpression.tla` file takes precedence 
  over the module `TraceScripts_TEExpression` below).

---- MODULE TraceScripts_TEExpression ----
EXTENDS Sequences, TLCExt, TraceScripts, Toolbox, Naturals, TLC

expression == 
    [
        \* To hide variables of the `TraceScripts` spec from the error trace,
        \* remove the variables below.  The trace will be written in the order
        \* of the fields of this record.
        l |-> l
        ,cnt |-> cnt
        ,viol |-> viol
        
        \* Put additional constant-, state-, and action-level expressions here:
        \* ,_stateNumber |-> _TEPosition
        \* ,_lUnchanged |-> l = l'
        
        \* Format the `l` variable as Json value.
        \* ,_lJson |->
        \*     LET J == INSTANCE Json
        \*     IN J!ToJson(l)
        
        \* Lastly, you may build expressions over arbitrary sets of states by
        \* leveraging the _TETrace operator.  For example, this is how to
        \* count the number of times a spec variable changed up to the current
        \* state in the trace.
        \* ,_lModCount |->
        \*     LET F[s \in DOMAIN _TETrace] ==
        \*         IF s = 1 THEN 0
        \*         ELSE IF _TETrace[s].l # _TETrace[s-1].l
        \*             THEN 1 + F[s-1] ELSE F[s-1]
        \*     IN F[_TEPosition - 1]
    ]

=============================================================================



Parsing and semantic processing can take forever if the trace below is long.
 In this case, it is advised to uncomment the module below to deserialize the
 trace from a generated binary file.

\*
\*---- MODULE TraceScripts_TETrace ----
\*EXTENDS IOUtils, TraceScripts, TLC
\*
\*trace == IODeserialize("TraceScripts_TTrace_1790486898.bin", TRUE)
\*
\*=============================================================================
\*

---- MODULE TraceScripts_TETrace ----
EXTENDS TraceScripts, TLC

trace == 
    <<
    ([viol |-> {},cnt |-> 0,l |-> 1]),
    ([viol |-> {},cnt |-> 0,l |-> 2])
    >>
----


=============================================================================

---- CONFIG TraceScripts_TTrace_1790486898 ----

INVARIANT
    _inv

CHECK_DEADLOCK
    \* CHECK_DEADLOCK off because of PROPERTY or INVARIANT above.
    FALSE

INIT
    _init

NEXT
    _next

CONSTANT
    _TETrace <- _trace

ALIAS
    _expression
=============================================================================
\* Generated on Sun Sep 27 05:28:21 UTC 2026