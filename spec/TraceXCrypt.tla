---------------------------- MODULE TraceXCrypt ----------------------------
(***************************************************************************)
(* Trace specification: validates an execution recorded from the real      *)
(* library (harness/xcv.c, one NDJSON line per API call carrying the       *)
(* projection of the C state) against XCryptCore + Settings.               *)
(*                                                                         *)
(* Style: "judge", not "accept/reject".  Every recorded call is turned     *)
(* into a call record whose outcome `oc` is computed by Settings!Outcome   *)
(* from the recorded concrete setting, whose pre-state is the state this   *)
(* specification has tracked for the object and whose post-state is the    *)
(* observed projection.  The property predicates of XCryptCore (the same   *)
(* ones the exhaustive model is checked against) and the concrete          *)
(* predicates below are evaluated on it; each failure is appended to       *)
(* `viol` with the property it belongs to.  The tracked state then         *)
(* continues from the OBSERVED post-state so one failure does not cascade. *)
(* Disagreements between the model's accept/reject opinion and the code    *)
(* that are not property failures go to `div` (DESIGN.md section 4).       *)
(***************************************************************************)
EXTENDS XCryptCore, Json, IOUtils

S == INSTANCE Settings
Y == INSTANCE Yescrypt

T == ndJsonDeserialize(IOEnv.XCV_TRACE)
OutFile == IOEnv.XCV_VERDICT

VARIABLES l, st, viol, div, cnt
vars == <<l, st, viol, div, cnt>>

Enabled == IF Len(T) > 0 /\ T[1].e = "config" THEN {T[1].E[i] : i \in 1..Len(T[1].E)} ELSE S!AllMethods
FailureTokens == IF Len(T) > 0 /\ T[1].e = "config" THEN T[1].failure_tokens = 1 ELSE TRUE

\* ---- abstraction of the observed projection ----------------------------
AbsOut(o, k) ==
  IF k = "nonul" THEN Junk
  ELSE IF k = "none" THEN Zero
  ELSE IF o = <<>> THEN Tok("")
  ELSE IF o = <<42, 48>> THEN Tok("*0")
  ELSE IF o = <<42, 49>> THEN Tok("*1")
  ELSE IF o = <<42>> THEN Tok("*")
  ELSE IF o[1] = 42 THEN Tok("other")
  ELSE Hash(o)
AbsScr(ev, pre) == IF ev.szero = 1 THEN Clean ELSE IF ev.ssame = 1 THEN pre.scr ELSE <<"dirty">>
SzClass(n) == IF n < 0 THEN "neg" ELSE IF n = 0 THEN "0" ELSE IF n = 1 THEN "1" ELSE IF n = 2 THEN "2"
              ELSE IF n < SIZEOF THEN "small" ELSE IF n = SIZEOF THEN "sizeof" ELSE "big"

\* an all-zero output field reads as the empty string: identify the two abstract values
Norm(d) == IF d.out = Zero THEN [d EXCEPT !.out = Tok("")] ELSE d
StOf(o) == Norm(IF o \in DOMAIN st THEN st[o] ELSE FreshObj)
SetSt(o, d) == [x \in (DOMAIN st) \cup {o} |-> IF x = o THEN d ELSE st[x]]

IsHashEv(e) == e \in {"crypt_rn", "crypt_r", "xcrypt_r", "crypt", "fcrypt", "xcrypt", "crypt_ra"}
FnOf(e) == IF e = "xcrypt_r" THEN "crypt_r" ELSE IF e \in {"fcrypt", "xcrypt"} THEN "crypt" ELSE e

\* ---- outcome of the request according to the specification -------------
Star1(s) == S!At(s, 1) = 42 /\ S!At(s, 2) = 48
SpecOutcomeOf(ev) ==
  IF ev.pnull = 1 \/ ev.snull = 1
    THEN [k |-> "fail", err |-> EINVAL, m |-> "none", canon |-> <<>>, validated |-> FALSE]
    ELSE S!Outcome(Enabled, ev.s, ev.pl)
\* the specification's outcome of every recorded request, evaluated ONCE for the whole trace (a constant of the
\* trace; the predicates below refer to it by position, the current event being T[l])
IsHashEv0(e) == e \in {"crypt_rn", "crypt_r", "xcrypt_r", "crypt", "fcrypt", "xcrypt", "crypt_ra"}
SOTable == TLCEval([i \in 1..Len(T) |-> IF IsHashEv0(T[i].e) THEN SpecOutcomeOf(T[i]) ELSE [k |-> "none"]])
SpecOutcomeAt(i) == SOTable[i]

\* an injected failure that the call could not recover from.  The one documented recovery is
\* the huge-page attempt of the yescrypt region (op "H"): when it fails the plain mapping is tried.
AnyFault(ev) == \E i \in 1..Len(ev.led) :
                   /\ ev.led[i].failed = 1
                   /\ ~(ev.led[i].op = "H" /\ i < Len(ev.led) /\ ev.led[i + 1].op = "M" /\ ev.led[i + 1].failed = 0)
ReallocFailed(ev) == ev.e = "crypt_ra" /\ Len(ev.led) > 0 /\ ev.led[1].op = "r" /\ ev.led[1].failed = 1
Grew(ev) == ev.e = "crypt_ra" /\ Len(ev.led) > 0 /\ ev.led[1].op = "r" /\ ev.led[1].failed = 0
ErasedFirst(ev) == ev.led[1].hadold = 0 \/ ev.presize <= 0 \/ ev.led[1].oldzero = 1

ObservedSuccess(ev) == IsHash(AbsOut(ev.out, ev.outk)) /\ ev.ret = "out"

\* the digest identity this request must produce: what an earlier identical request produced
\* (kprev is an index computed by the driver and VERIFIED here), else the observed string itself
SameRequest(a, b) == a.ph = b.ph /\ a.s = b.s /\ a.pnull = b.pnull /\ a.snull = b.snull
KeyLearned(ev) ==
  ev.kprev > 0 /\ ev.kprev < l /\ IsHashEv(T[ev.kprev].e) /\ SameRequest(T[ev.kprev], ev)
     /\ T[ev.kprev].rel = ev.rel            \* (another library's graph is compared by C02_Released)
     /\ ObservedSuccess(T[ev.kprev])
KeyFor(ev) == IF KeyLearned(ev) THEN T[ev.kprev].out ELSE ev.out
\* C07, outcome form: WHETHER a request is hashed or refused is part of its result.  oprev (computed by the driver,
\* verified here) is the first identical request to the same library; when neither call was hindered by something
\* outside the arguments (a too-small size, an injected or real allocation failure), both end the same way.
Unhindered(ev) == /\ ~AnyFault(ev) /\ ~ReallocFailed(ev) /\ ev.pnull = 0 /\ ev.snull = 0
                  /\ (ev.e = "crypt_rn" => SzClass(ev.size) \in {"sizeof", "big"})
                  /\ ~(~ObservedSuccess(ev) /\ ev.errno = ENOMEM)
A_SameOutcome(ev) == /\ "oprev" \in DOMAIN ev /\ ev.oprev > 0 /\ ev.oprev < l /\ IsHashEv(T[ev.oprev].e)
                     /\ SameRequest(T[ev.oprev], ev) /\ T[ev.oprev].rel = ev.rel /\ Unhindered(ev) /\ Unhindered(T[ev.oprev])
C07_SameOutcome(ev) == A_SameOutcome(ev) => (ObservedSuccess(ev) = ObservedSuccess(T[ev.oprev]))

\* resolve the model's outcome into the record the predicates need
Resolve(ev) ==
  LET o == SpecOutcomeAt(l)
      faulted == AnyFault(ev) /\ ~ReallocFailed(ev)      \* a mapping request failed inside the method
      k == IF faulted THEN "fail"
           ELSE IF o.k = "either" THEN (IF ObservedSuccess(ev) THEN "ok" ELSE "fail") ELSE o.k
  IN [k |-> k, err |-> IF o.k = "fail" THEN o.err ELSE ev.errno, validated |-> o.validated,
      key |-> KeyFor(ev), star1 |-> Star1(ev.s), m |-> o.m, canon |-> o.canon, spec |-> o.k,
      faulted |-> faulted]

\* ---- concrete predicates (on the projection itself) --------------------
\* C04: writes confined to output/reserved/initialized/internal; red zones intact; result inside
\* the output field and NUL-terminated there; no static written by a re-entrant function
AllowedStatics(e) == IF e \in {"crypt", "fcrypt", "xcrypt"} THEN {"nr_crypt_ctx.0"} ELSE {}
\* (crypt_ra owns its block: when the recorded size says it must be replaced, the library erases it first by design)
C_Confined(ev) ==
  /\ (ev.appsame = 1 \/ (ev.e = "crypt_ra" /\ (ev.predata = 0 \/ ev.presize < SIZEOF)))
  /\ ev.rz = 1
  /\ ev.ret \in {"null", "out"}
  /\ (ev.ret = "out" => ev.outk = "str")
  /\ \A i \in 1..Len(ev.sw) : ev.sw[i] \in AllowedStatics(ev.e)
\* C09: no copy of the passphrase in the object, in released heap/mappings, on the stack
C_NoLeak(ev) == ev.leakobj = 0 /\ ev.leakfree = 0 /\ ev.leakunmap = 0 /\ ev.stackhits = 0
\* C06: a successful result has the method's shape and carries the canonical setting in front
C_Shape(ev, oc) ==
  (ObservedSuccess(ev) /\ oc.m # "none") =>
     LET hm == IF oc.m = "bigcrypt" /\ ev.pl > 8 /\ Len(ev.s) <= 13 THEN "descrypt" ELSE oc.m IN
     /\ S!Shape(hm, ev.out)
     /\ S!Dispatch(Enabled, ev.out) = oc.m
     /\ S!Checksalt(Enabled, ev.out) # S!SALT_INVALID
\* C06: whatever a call returns as its result is NUL-terminated inside the output field
C_Terminated(ev) == ev.ret = "out" => (ev.outk = "str" /\ Len(ev.out) < 384)
C_CanonPrefix(ev, oc) ==
  (ObservedSuccess(ev) /\ oc.spec = "ok") =>
     /\ S!StartsWith(ev.out, oc.canon \o S!SepOf(oc.m))
     /\ Len(ev.out) = Len(oc.canon) + Len(S!SepOf(oc.m)) + S!DigestLen(oc.m, ev.pl, Len(ev.s))
\* C01: hashing with a produced hash (or the hash with its digest part replaced) reproduces it.
\* hprev = index of the call whose result this call used as (the basis of) its setting.
A_RoundTrip(ev) ==
  (ev.hprev > 0 /\ ev.hprev < l /\ IsHashEv(T[ev.hprev].e) /\ ObservedSuccess(T[ev.hprev])
     /\ T[ev.hprev].ph = ev.ph /\ Len(ev.s) = Len(T[ev.hprev].out)
     /\ ev.hkeep <= Len(ev.s) /\ SubSeq(ev.s, 1, ev.hkeep) = SubSeq(T[ev.hprev].out, 1, ev.hkeep))
C_RoundTrip(ev) == A_RoundTrip(ev) => (ObservedSuccess(ev) /\ ev.out = T[ev.hprev].out)
\* C03: a request that differs from its base request (bprev, given by the driver, verified here)
\* inside what the method documents as significant -- phrase key, canonical salt or cost -- never
\* reproduces the base's digest.  Phrases are logged as byte arrays (pc) for these events.
SigDiff(a, b, oa, ob) ==
  /\ oa.m = ob.m /\ oa.k = "ok" /\ ob.k = "ok"
  /\ S!QuirkFree(oa.m, a.pc) /\ S!QuirkFree(ob.m, b.pc)
  /\ (oa.canon # ob.canon \/ S!PhraseKey(oa.m, a.pc, Len(a.s)) # S!PhraseKey(ob.m, b.pc, Len(b.s)))
A_Distinct(ev) ==
  (ev.bprev > 0 /\ ev.bprev < l /\ IsHashEv(T[ev.bprev].e) /\ ObservedSuccess(T[ev.bprev]) /\ ObservedSuccess(ev)
     /\ SigDiff(T[ev.bprev], ev, SpecOutcomeAt(ev.bprev), SpecOutcomeAt(l)))
\* (vacuity guard) a probe on which a false accept would show: a base that hashed, a changed setting the specification refuses
A_FalseAcceptProbe(ev) ==
  ev.bprev > 0 /\ ev.bprev < l /\ IsHashEv(T[ev.bprev].e) /\ ObservedSuccess(T[ev.bprev])
     /\ SpecOutcomeAt(ev.bprev).k = "ok" /\ SpecOutcomeAt(l).k = "fail" /\ SpecOutcomeAt(l).m = SpecOutcomeAt(ev.bprev).m
     /\ ev.s # T[ev.bprev].s
C_Distinct(ev) ==
  A_Distinct(ev)
  => LET m == SpecOutcomeAt(l).m IN
     S!DigestTail(m, T[ev.bprev].out, T[ev.bprev].pl, Len(T[ev.bprev].s)) # S!DigestTail(m, ev.out, ev.pl, Len(ev.s))
\* C03, second clause: a changed salt/cost field that the specification says must be REFUSED, accepted by the
\* code and hashed to the base's digest (a cost parsed into a narrower type, a salt character aliased by the
\* decoder): two different settings, one hash part.
C_FalseAccept(ev) ==
  (ev.bprev > 0 /\ ev.bprev < l /\ IsHashEv(T[ev.bprev].e) /\ ObservedSuccess(T[ev.bprev]) /\ ObservedSuccess(ev)
     /\ SpecOutcomeAt(ev.bprev).k = "ok" /\ SpecOutcomeAt(l).k = "fail" /\ SpecOutcomeAt(l).m = SpecOutcomeAt(ev.bprev).m
     /\ ev.s # T[ev.bprev].s /\ ev.pc = T[ev.bprev].pc)
  => LET m == SpecOutcomeAt(ev.bprev).m IN
     S!DigestTail(m, T[ev.bprev].out, T[ev.bprev].pl, Len(T[ev.bprev].s)) # S!DigestTail(m, ev.out, ev.pl, Len(ev.s))
\* C03, verification form: with the SAME setting string (a stored hash), a phrase whose significant projection differs
\* from the enrolled one never reproduces the whole result
A_NoFalseAccept(ev) ==
  ev.bprev > 0 /\ ev.bprev < l /\ IsHashEv(T[ev.bprev].e) /\ ObservedSuccess(T[ev.bprev]) /\ ObservedSuccess(ev)
     /\ ev.s = T[ev.bprev].s /\ SpecOutcomeAt(l).k # "fail" /\ SpecOutcomeAt(ev.bprev).k # "fail"
     /\ SpecOutcomeAt(l).m = SpecOutcomeAt(ev.bprev).m
     /\ S!QuirkFree(SpecOutcomeAt(l).m, ev.pc) /\ S!QuirkFree(SpecOutcomeAt(l).m, T[ev.bprev].pc)
     /\ S!PhraseKey(SpecOutcomeAt(l).m, ev.pc, Len(ev.s)) # S!PhraseKey(SpecOutcomeAt(l).m, T[ev.bprev].pc, Len(ev.s))
C_NoFalseAccept(ev) == A_NoFalseAccept(ev) => ev.out # T[ev.bprev].out
\* the converse (documented insignificance) is not a property here: counted as a divergence only
C_SameKeySame(ev) ==
  (ev.bprev > 0 /\ ev.bprev < l /\ IsHashEv(T[ev.bprev].e) /\ ObservedSuccess(T[ev.bprev]) /\ ObservedSuccess(ev)
     /\ SpecOutcomeAt(l).k = "ok" /\ SpecOutcomeAt(ev.bprev).k = "ok" /\ SpecOutcomeAt(l).m = SpecOutcomeAt(ev.bprev).m
     /\ SpecOutcomeAt(l).canon = SpecOutcomeAt(ev.bprev).canon
     /\ S!PhraseKey(SpecOutcomeAt(l).m, ev.pc, Len(ev.s)) = S!PhraseKey(SpecOutcomeAt(l).m, T[ev.bprev].pc, Len(T[ev.bprev].s)))
  => ev.out = T[ev.bprev].out
\* C10: a setting produced by crypt_gensalt* hashes successfully and is kept literally in the hash
\* C02 (cross-release): the interpretation of the uninterpreted Hash on the corpus is the graph of the
\* RELEASED libcrypt.so.1 (events with rel = 1, recorded from the released library or loaded from
\* /verif/golden); a call of the tree under test must reproduce it byte for byte.
A_Released(ev) ==
  (ev.rel = 0 /\ ev.rprev > 0 /\ ev.rprev < l /\ IsHashEv(T[ev.rprev].e) /\ T[ev.rprev].rel = 1 /\ SameRequest(T[ev.rprev], ev)
     /\ SpecOutcomeAt(l).k # "fail"         \* (a method disabled in this configuration is specified to be refused)
     \* the same method computes it in the reference library (bigcrypt and descrypt share their setting space)
     /\ S!Effective(SpecOutcomeAt(l).m, ev.pl, Len(ev.s)) = S!Effective(S!Dispatch(S!AllMethods, ev.s), ev.pl, Len(ev.s)))
C02_Released(ev) ==
  A_Released(ev)
  => (ev.out = T[ev.rprev].out /\ ObservedSuccess(ev) = ObservedSuccess(T[ev.rprev]))
\* C05 (malformed parameters): a yescrypt-family setting whose parameters decode but which yescrypt_kdf must refuse
\* (unsupported flavour, t/g/NROM where they are not allowed, N <= 3, N/p <= 3, r*p >= 2^30) never yields a hash.
\* Settings.tla leaves these "either"; Yescrypt.tla decides them.
YDecoded(ev, m) == IF m = "scrypt" THEN Y!Decode7(ev.s) ELSE Y!DecodeY(ev.s, IF m = "yescrypt" THEN 3 ELSE 4)
A_KdfParams(ev, oc) ==
  oc.m \in {"yescrypt", "gost_yescrypt", "scrypt"} /\ oc.validated /\ LET d == YDecoded(ev, oc.m) IN d.ok /\ ~Y!KdfAccepts(d)
C05_KdfParams(ev, oc) == A_KdfParams(ev, oc) => ~ObservedSuccess(ev)
C18_CanHash(ev) == (ObservedSuccess(ev) /\ ev.snull = 0) => S!Checksalt(Enabled, ev.s) # S!SALT_INVALID
C_Literal(ev) == ev.gs = 1 => (ObservedSuccess(ev) /\ S!StartsWith(ev.out, ev.s))
\* C14: the handle after crypt_ra
MustGrow(ev) == ev.predata = 0 \/ ev.presize < SIZEOF
C_Handle(ev) ==
  ev.e = "crypt_ra" =>
    /\ ev.badfree = 0
    /\ (MustGrow(ev) => (Grew(ev) \/ ReallocFailed(ev)))          \* NULL, negative or too-small size: reallocate
    /\ (ev.ret = "out" => ev.postsize >= SIZEOF)
    /\ (Grew(ev) => ev.postdata = 1 /\ ev.postsize = SIZEOF /\ ev.blocksize >= SIZEOF)
    \* "zero-initialised after": a block that was grown (moved or resized in place) comes back with its application fields cleared
    /\ ((Grew(ev) /\ "appzero" \in DOMAIN ev) => ev.appzero = 1)
    \* ... whatever the call then did: after a grow everything behind the output field is zero (a call that fails before
    \* any wiping must not leave the allocator's old contents in reserved/internal)
    /\ ((Grew(ev) /\ "tailzero" \in DOMAIN ev) => ev.tailzero = 1)
    /\ (~Grew(ev) => ev.moved = 0 /\ ev.postsize = ev.presize)
    /\ (ev.ret = "out" => ev.postdata = 1 /\ ev.blocksize >= SIZEOF)
    /\ ev.ret \in {"null", "out"}
    /\ ev.liveheap = ev.hlive
\* C15: nothing the library still controls is leaked, whatever failed
C_Balanced(ev) == ev.livemap = 0 /\ ev.badfree = 0 /\ ev.liveheap = ev.hlive

AntNames == {"FailClosed", "FailClosedStaleErrno", "ShortSizes", "Wiped", "Result", "ResultNonzeroErrno", "UninitDependence", "AsIfAlone",
             "Grow", "Handle", "RoundTrip", "Distinct", "FalseAcceptProbe", "Literal", "Released", "Balanced", "Shape", "KdfParams", "NoFalseAccept",
             "SameOutcome"}
\* (the argument is forced with TLCEval at the call site: a lazy argument would be re-evaluated for every n)
AddAnts(f, a) == [n \in AntNames |-> f[n] + (IF n \in a THEN 1 ELSE 0)]
V(p, n) == [l |-> l, p |-> p, n |-> n]
PropOf(n) == CASE n \in {"FailClosed", "NoStale", "Token", "ShortSizes"} -> "C05"
               [] n = "Wiped" -> "C09" [] n = "Result" -> "C07" [] n = "Grow" -> "C14"

JudgeHash(ev) ==
  LET oc   == Resolve(ev)
      fn   == FnOf(ev.e)
      pre  == StOf(ev.o)
      post == [out |-> AbsOut(ev.out, ev.outk), scr |-> AbsScr(ev, pre)]
      ret  == IF ev.ret = "null" THEN RNull ELSE IF ev.ret = "out" THEN ROut ELSE ev.ret
      \* errno on entry (recorded as "ein") is part of the history: no predicate may depend on it, and
      \* every failing call must replace it by a documented code (P_FailClosed reads err1 only)
      c    == Call(fn, oc, SzClass(ev.size), pre, post, IF "ein" \in DOMAIN ev THEN ev.ein ELSE 0, ev.errno, ret,
                   Grew(ev), IF Grew(ev) THEN ErasedFirst(ev) ELSE TRUE, ReallocFailed(ev), FailureTokens)
      core == Judge(c)
      \* under an injected fault a failing call is judged as C15; the shape of the failure is the same
      coreV == {V(IF AnyFault(ev) /\ n \in {"FailClosed", "NoStale", "Token", "Wiped"} THEN "C15" ELSE PropOf(n), n) : n \in core}
      conc == (IF C_Confined(ev) THEN {} ELSE {V("C04", "Confined")})
              \cup (IF "Result" \in core /\ (pre.scr = Junk \/ pre.out = Junk) THEN {V("C04", "UninitDependence")} ELSE {})
              \* C08: a call made while other threads were calling returned what it returns when run alone
              \cup (IF "Result" \in core /\ ev.mt = 1 THEN {V("C08", "AsIfAlone")} ELSE {})
              \cup (IF C_NoLeak(ev) THEN {} ELSE {V("C09", "NoLeak")})
              \cup (IF C_Shape(ev, oc) THEN {} ELSE {V("C06", "Shape")})
              \cup (IF C_CanonPrefix(ev, oc) THEN {} ELSE {V("C06", "CanonPrefix")})
              \cup (IF C_Terminated(ev) THEN {} ELSE {V("C06", "Terminated")})
              \cup (IF C_RoundTrip(ev) THEN {} ELSE {V("C01", "RoundTrip")})
              \cup (IF C_Distinct(ev) THEN {} ELSE {V("C03", "Distinct")})
              \cup (IF C_FalseAccept(ev) THEN {} ELSE {V("C03", "FalseAccept")})
              \cup (IF C_NoFalseAccept(ev) THEN {} ELSE {V("C03", "NoFalseAccept")})
              \cup (IF C_Handle(ev) THEN {} ELSE {V("C14", "Handle")})
              \cup (IF C05_KdfParams(ev, oc) THEN {} ELSE {V("C05", "KdfParams")})
              \cup (IF C_Literal(ev) THEN {} ELSE {V("C10", "Literal")})
              \cup (IF C18_CanHash(ev) THEN {} ELSE {V("C18", "CanHash")})
              \cup (IF C02_Released(ev) THEN {} ELSE {V("C02", "Released")})
              \cup (IF C07_SameOutcome(ev) THEN {} ELSE {V("C07", "SameOutcome")})
              \* (also without a fault, whenever the call made mapping requests: what it mapped is unmapped when it returns)
              \cup (IF (AnyFault(ev) \/ \E i \in 1..Len(ev.led) : ev.led[i].op \in {"H", "M"}) /\ ~C_Balanced(ev)
                    THEN {V("C15", "Balanced")} ELSE {})
      \* vacuity guard: the predicates whose antecedent holds on this call (counted in cnt.ant, reported as evidence;
      \* a check whose own predicate was never exercised is broken, tools/props.py REQUIRED_ANTS)
      ants == (IF MustFail(c) THEN {"FailClosed"} ELSE {})
              \cup (IF MustFail(c) /\ c.err0 \notin {0, EINVAL, ERANGE, ENOMEM} THEN {"FailClosedStaleErrno"} ELSE {})
              \cup (IF c.fn = "crypt_rn" /\ ~SizeOK(c.sz) THEN {"ShortSizes"} ELSE {})
              \cup (IF Validated(c) THEN {"Wiped"} ELSE {})
              \cup (IF MustSucceed(c) /\ KeyLearned(ev) THEN {"Result"} ELSE {})
              \cup (IF MustSucceed(c) /\ KeyLearned(ev) /\ c.err0 # 0 THEN {"ResultNonzeroErrno"} ELSE {})
              \cup (IF MustSucceed(c) /\ KeyLearned(ev) /\ (pre.scr = Junk \/ pre.out = Junk) THEN {"UninitDependence"} ELSE {})
              \cup (IF MustSucceed(c) /\ KeyLearned(ev) /\ ev.mt = 1 THEN {"AsIfAlone"} ELSE {})
              \cup (IF c.fn = "crypt_ra" /\ c.grew THEN {"Grow"} ELSE {})
              \cup (IF ev.e = "crypt_ra" THEN {"Handle"} ELSE {})
              \cup (IF A_RoundTrip(ev) THEN {"RoundTrip"} ELSE {})
              \cup (IF A_Distinct(ev) THEN {"Distinct"} ELSE {})
              \cup (IF A_FalseAcceptProbe(ev) THEN {"FalseAcceptProbe"} ELSE {})
              \cup (IF A_NoFalseAccept(ev) THEN {"NoFalseAccept"} ELSE {})
              \cup (IF ev.gs = 1 THEN {"Literal"} ELSE {})
              \cup (IF A_Released(ev) THEN {"Released"} ELSE {})
              \cup (IF AnyFault(ev) THEN {"Balanced"} ELSE {})
              \cup (IF ObservedSuccess(ev) THEN {"Shape"} ELSE {})
              \cup (IF A_KdfParams(ev, oc) THEN {"KdfParams"} ELSE {})
              \cup (IF A_SameOutcome(ev) THEN {"SameOutcome"} ELSE {})
  IN [viol |-> IF ev.rel = 1 THEN {} ELSE coreV \cup conc, ants |-> IF ev.rel = 1 THEN {} ELSE ants,
      \* (events of the reference library are data, not judged: it has the defects this tree repaired)
      div |-> IF AnyFault(ev) \/ ev.rel = 1 THEN {}
              ELSE IF oc.spec = "ok" /\ ~ObservedSuccess(ev) /\ ~AnyFault(ev) /\ SzClass(ev.size) \in {"sizeof", "big"}
                 THEN {[l |-> l, d |-> "model-ok-code-fail"]}
              ELSE IF oc.spec = "fail" /\ ObservedSuccess(ev) THEN {[l |-> l, d |-> "model-fail-code-ok"]}
              ELSE IF ~C_SameKeySame(ev) THEN {[l |-> l, d |-> "insignificant-change-changed-hash"]}
              ELSE IF oc.spec = "fail" /\ ~ObservedSuccess(ev) /\ ev.errno # oc.err /\ SzClass(ev.size) \in {"sizeof", "big"}
                 THEN {[l |-> l, d |-> "errno"]}
              ELSE {},
      post |-> post]

\* ---- C18 / C17 events ---------------------------------------------------
JudgeChecksalt(ev) ==
  IF (IF ev.snull = 1 THEN S!SALT_INVALID ELSE S!Checksalt(Enabled, ev.s)) = ev.r /\ Len(ev.sw) = 0 THEN {} ELSE {V("C18", "Checksalt")}

\* ---- the trace machine --------------------------------------------------
Init == l = 1 /\ st = [x \in {} |-> FreshObj] /\ viol = {} /\ div = {}
        /\ cnt = [calls |-> 0, ok |-> 0, failed |-> 0, faulted |-> 0, ant |-> [n \in AntNames |-> 0]]

Step ==
  /\ l <= Len(T)
  /\ l' = l + 1
  /\ LET ev == T[l] IN
     IF IsHashEv(ev.e) THEN
        LET j == JudgeHash(ev) IN
        /\ viol' = viol \cup j.viol
        /\ div' = div \cup j.div
        /\ st' = SetSt(ev.o, j.post)
        /\ cnt' = [cnt EXCEPT !.calls = @ + 1,
                               !.ok = @ + (IF ObservedSuccess(ev) THEN 1 ELSE 0),
                               !.failed = @ + (IF ObservedSuccess(ev) THEN 0 ELSE 1),
                               !.faulted = @ + (IF AnyFault(ev) THEN 1 ELSE 0),
                               !.ant = AddAnts(@, TLCEval(j.ants))]
     ELSE IF ev.e = "obj" THEN
        /\ st' = SetSt(ev.o, IF ev.fill = 0 THEN FreshObj ELSE JunkObj)
        /\ UNCHANGED <<viol, div, cnt>>
     ELSE IF ev.e = "scribble" THEN
        /\ st' = SetSt(ev.o, IF ev.region = "out" THEN [StOf(ev.o) EXCEPT !.out = Junk]
                              ELSE IF ev.region = "scratch" THEN [StOf(ev.o) EXCEPT !.scr = Junk]
                              ELSE JunkObj)
        /\ UNCHANGED <<viol, div, cnt>>
     ELSE IF ev.e = "setkey_r" THEN
        /\ st' = SetSt(ev.o, [StOf(ev.o) EXCEPT !.scr = <<"deskey", ev.key>>])
        /\ viol' = viol \cup (IF ev.appsame = 1 /\ ev.rz = 1 /\ Len(ev.sw) = 0 THEN {} ELSE {V("C04", "Confined")})
        /\ UNCHANGED <<div, cnt>>
     ELSE IF ev.e = "gensalt_ra" THEN
        \* C14: NULL with nothing allocated, or a malloc'd string the caller frees
        /\ viol' = viol \cup (IF (ev.ret = "null" /\ ev.liveheap = ev.hlive /\ ev.badfree = 0)
                                  \/ (ev.ret = "heap" /\ ev.liveheap = ev.hlive + 1 /\ ev.badfree = 0)
                               THEN {} ELSE {V(IF AnyFault(ev) THEN "C15" ELSE "C14", "GensaltRA")})
        /\ UNCHANGED <<st, div, cnt>>
     ELSE IF ev.e = "checksalt" THEN
        /\ viol' = viol \cup JudgeChecksalt(ev)
        /\ UNCHANGED <<st, div, cnt>>
     ELSE IF ev.e = "csclass" THEN
        \* C18: every byte string of this class got the single answer the specification gives
        /\ viol' = viol \cup (IF ev.rs = <<S!Checksalt(Enabled, ev.cs)>> THEN {} ELSE {V("C18", "ChecksaltClass")})
        /\ UNCHANGED <<st, div, cnt>>
     ELSE IF ev.e = "csnull" THEN
        /\ viol' = viol \cup (IF ev.r = S!SALT_INVALID THEN {} ELSE {V("C18", "ChecksaltNull")})
        /\ UNCHANGED <<st, div, cnt>>
     ELSE IF ev.e = "preferred" THEN
        \* C18: crypt_preferred_method names the strongest enabled default-capable method (or NULL)
        /\ viol' = viol \cup (IF (IF S!DefaultMethod(Enabled) = "none" THEN ev.rnull = 1
                                  ELSE ev.rnull = 0 /\ ev.r = S!PrefixOf[S!DefaultMethod(Enabled)]
                                       /\ S!Checksalt(Enabled, ev.r) = S!SALT_OK)
                               THEN {} ELSE {V("C18", "Preferred")})
                       \* CRYPT_GENSALT_IMPLEMENTS_DEFAULT_PREFIX of the generated header reflects the same fact
                       \cup (IF T[1].e = "config" /\ T[1].macro_default_prefix # (IF S!DefaultMethod(Enabled) = "none" THEN 0 ELSE 1)
                             THEN {V("C19", "DefaultPrefixMacro")} ELSE {})
        /\ UNCHANGED <<st, div, cnt>>
     ELSE IF ev.e = "Reset" THEN
        /\ st' = [x \in {} |-> FreshObj]
        /\ UNCHANGED <<viol, div, cnt>>
     ELSE IF ev.e = "Fault" THEN
        \* (a fault while the library's static storage was write-protected is a write by a re-entrant function)
        /\ viol' = viol \cup {V(IF "wprot" \in DOMAIN ev /\ ev.wprot = 1 THEN "C08" ELSE "C04", "Fault")}
        /\ UNCHANGED <<st, div, cnt>>
     ELSE UNCHANGED <<st, viol, div, cnt>>

Spec == Init /\ [][Step]_vars

\* when the whole trace is consumed, write the verdict
Finish ==
  l <= Len(T) \/
  JsonSerialize(OutFile, [consumed |-> l - 1, lines |-> Len(T), viol |-> viol, div |-> div, cnt |-> cnt])
=============================================================================
