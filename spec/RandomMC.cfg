SPECIFICATION FairSpec
CONSTANT Compiled <- MCAll
CONSTANT MaxCalls = 6
CONSTANT Lens = {0, 16, 256, 257}
CONSTANT LogHist = FALSE
INVARIANT TrueMeansFull FalseMeansNotFull NoFdLeak FalseSetsErrno AllDeadENOSYS Bounds
PROPERTY DeadMonotone NeverAskDead Terminates
CHECK_DEADLOCK FALSE
