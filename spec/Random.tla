------------------------------- MODULE Random -------------------------------
(***************************************************************************)
(* get_random_bytes (lib/util-get-random-bytes.c) when the C library has   *)
(* no arc4random_buf: a chain of operating-system sources tried in a fixed *)
(* order, each with a STICKY "doesn't work" flag that survives the call    *)
(* (function-local statics), so the behaviour of a call depends on the     *)
(* history of the process.  This is the mechanism behind C12's last        *)
(* clause (rbytes == NULL: the salt encodes bytes drawn from the OS) and   *)
(* behind crypt_gensalt's ENOSYS/EIO failures.                             *)
(*                                                                         *)
(* One action per source attempt (the grain at which the harness records   *)
(* the real code: harness/xcv.c, xcv_getentropy ... xcv_close), the        *)
(* environment chooses the answer.  The transition FUNCTIONS below are     *)
(* shared by the model (RandomMC) and the trace specification              *)
(* (TraceRandom), which folds the recorded attempts of each call through   *)
(* them.                                                                   *)
(***************************************************************************)
EXTENDS Naturals, Sequences, FiniteSets

\* sources in the order of the code: libc getentropy, libc getrandom, syscall(SYS_getentropy),
\* syscall(SYS_getrandom), /dev/urandom.  Compiled = the subsequence this build contains.
AllSources == <<"e", "r", "E", "R", "u">>
EntropyLike(s) == s \in {"e", "E"}                \* 0 / -1 : all or nothing
\* K whole request | S short count | F,I,P -1 with ENOSYS, EINTR, EPERM | N open("/dev/urandom") fails
Answers(s) == IF EntropyLike(s) THEN {"K", "F", "I", "P"}
              ELSE IF s = "u" THEN {"K", "S", "F", "I", "N"} ELSE {"K", "S", "F", "I", "P"}
ENOSYS == 38  EIO == 5  EINTR == 4  EPERM == 1  ENOENT == 2
ErrnoOf(s, a) == CASE a = "I" -> EINTR [] a = "P" -> EPERM [] a = "N" -> ENOENT
                   [] a = "F" /\ s = "u" -> EIO [] OTHER -> ENOSYS

\* ---- state --------------------------------------------------------------
\* dead : sources marked "doesn't work" (sticky across calls)
\* pc   : "idle" | "try";  idx : position in Compiled of the next candidate
\* buf  : <<"untouched">> | <<"zero">> | <<"partial", s>> | <<"full", s>>
\* err  : errno;  errw : errno was written during the current/last call
\* ret  : result of the last finished call;  fds : descriptors the call holds open
Idle(dead, err) == [dead |-> dead, pc |-> "idle", idx |-> 0, n |-> 0, buf |-> <<"untouched">>, err |-> err,
                    errw |-> FALSE, ret |-> TRUE, fds |-> 0, last |-> <<"none", "none">>]

NextLive(C, dead, i) ==
  LET js == {j \in i..Len(C) : C[j] \notin dead} IN
  IF js = {} THEN Len(C) + 1 ELSE CHOOSE j \in js : \A k \in js : j <= k

\* get_random_bytes(buf, len) entered with errno = ein
BeginF(st, len, ein) ==
  LET s0 == [Idle(st.dead, ein) EXCEPT !.n = len] IN
  IF len = 0 THEN s0                                             \* nothing to do: true, buffer untouched
  ELSE IF len > 256 THEN [s0 EXCEPT !.ret = FALSE, !.err = EIO, !.errw = TRUE]
  ELSE [s0 EXCEPT !.pc = "try", !.idx = 1, !.buf = <<"zero">>]   \* explicit_bzero of the whole request

\* the source the next attempt goes to (0 = none left)
Candidate(C, st) == LET j == NextLive(C, st.dead, st.idx) IN IF st.pc = "try" /\ j <= Len(C) THEN j ELSE 0

\* the attempt at source C[j] answered a
AttemptF(C, st, j, a) ==
  LET s == C[j] IN
  IF a = "K" THEN [st EXCEPT !.pc = "idle", !.buf = <<"full", s>>, !.ret = TRUE, !.last = <<s, a>>]
  ELSE IF s # "u" THEN
     \* a short count or an error retires the source for the rest of the process and falls through
     [st EXCEPT !.dead = @ \cup {s}, !.idx = j + 1, !.last = <<s, a>>,
                !.buf = IF a = "S" THEN <<"partial", s>> ELSE @,
                !.err = IF a = "S" THEN @ ELSE ErrnoOf(s, a), !.errw = IF a = "S" THEN @ ELSE TRUE]
  ELSE IF a = "N" THEN      \* open failed: falls through to the final ENOSYS
     [st EXCEPT !.dead = @ \cup {s}, !.idx = j + 1, !.err = ENOENT, !.errw = TRUE, !.last = <<s, a>>]
  ELSE
     \* /dev/urandom opened: whatever read() says, the descriptor is closed and the call RETURNS here.
     \* Named deviation (UrandomShortLeavesErrno): a short read returns false without writing errno.
     [st EXCEPT !.dead = @ \cup {s}, !.pc = "idle", !.ret = FALSE, !.last = <<s, a>>,
                !.buf = IF a = "S" THEN <<"partial", s>> ELSE @,
                !.err = IF a = "S" THEN @ ELSE ErrnoOf(s, a), !.errw = IF a = "S" THEN @ ELSE TRUE]

\* every compiled source is retired: "completely hosed"
ExhaustedF(st) == [st EXCEPT !.pc = "idle", !.ret = FALSE, !.err = ENOSYS, !.errw = TRUE]

\* ---- what a finished call guarantees ------------------------------------
Finished(st) == st.pc = "idle"
\* true  <=> the whole request was filled by ONE source that was alive, in this call
TrueMeansFull(st) == (Finished(st) /\ st.ret /\ st.n > 0) => (st.buf[1] = "full" /\ st.buf[2] \notin st.dead)
FalseMeansNotFull(st) == (Finished(st) /\ ~st.ret) => st.buf[1] # "full"
NoFdLeak(st) == Finished(st) => st.fds = 0
\* "if it returns false, errno has been set" -- holds except on the named deviation
FalseSetsErrno(st) == (Finished(st) /\ ~st.ret) => (st.errw \/ st.last = <<"u", "S">>)
FalseSetsErrnoStrict(st) == (Finished(st) /\ ~st.ret) => st.errw
=============================================================================
