----------------------------- MODULE TracePrim -----------------------------
(***************************************************************************)
(* Trace specification for the digest / MAC / KDF / DES primitives (C16,   *)
(* C17) recorded by harness/prim.c and for the obsolete DES API events     *)
(* recorded by harness/xcv.c.                                              *)
(*   digest : the digest must be the standard construction (Digest.tla)    *)
(*            evaluated over the compression-function graph observed in    *)
(*            that very execution -- for whatever chunking and alignment   *)
(*            the driver used; the context must be erased by Final (C09)   *)
(*   hmac   : RFC 2104 over digest facts;  pbkdf2 : RFC 8018 over PRF facts*)
(*   des    : the salted iterated block function equals Des!CryptBlock     *)
(*   setkey/encrypt(_r): FIPS 46-3 DES on 64 bytes of which the low bit    *)
(*            counts, key tracked per object / static area (C17 histories) *)
(***************************************************************************)
EXTENDS Naturals, Integers, Sequences, FiniteSets, TLC, Json, IOUtils
D  == INSTANCE Digest
M  == INSTANCE Mac
DS == INSTANCE Des

T == ndJsonDeserialize(IOEnv.XCV_TRACE)
OutFile == IOEnv.XCV_VERDICT
VARIABLES l, keys, viol, cnt
vars == <<l, keys, viol, cnt>>

V(p, n) == [l |-> l, p |-> p, n |-> n]
HmacBlock(a) == 64
HexVal(c) == IF c >= 48 /\ c <= 57 THEN c - 48 ELSE c - 87

JudgeDigest(ev) ==
  LET d == D!StdDigest(ev.alg, ev.msg, ev.cfs) IN
  (IF d = <<>> THEN {V("C16", "MissingCompress")} ELSE IF d = ev.dg THEN {} ELSE {V("C16", "Digest")})
  \cup (IF ev.ctxzero = 1 THEN {} ELSE {V("C09", "CtxErased")})
JudgeHmac(ev) ==
  LET m == M!Hmac(ev.facts, 64, ev.key, ev.msg) IN
  (IF m = <<>> THEN {V("C16", "HmacMissingFact")} ELSE IF m = ev.mac THEN {} ELSE {V("C16", "Hmac")})
  \cup (IF "ctxzero" \in DOMAIN ev /\ ev.ctxzero # 1 THEN {V("C09", "CtxErased")} ELSE {})
JudgePbkdf2(ev) ==
  LET dk == M!Pbkdf2(ev.facts, 32, ev.salt, ev.c, ev.dklen) IN
  IF dk = <<>> THEN {V("C16", "Pbkdf2MissingFact")} ELSE IF dk = ev.dk THEN {} ELSE {V("C16", "Pbkdf2")}
\* a long derived key: the listed blocks T_i (block counters beyond 8, 16 and 24 bits) against the standard construction
JudgePbkdf2Sel(ev) ==
  LET bad == {i \in 1..Len(ev.blocks) :
                LET b == M!Block(ev.facts, ev.salt, ev.c, ev.blocks[i].i) IN
                b = <<>> \/ SubSeq(b, 1, Len(ev.blocks[i].dk)) # ev.blocks[i].dk} IN
  IF bad = {} /\ Len(ev.blocks) > 0 THEN {} ELSE {V("C16", "Pbkdf2Block")}
JudgeDes(ev) ==
  IF DS!CryptBlockBytes(ev.key, ev.salt, ev.count, ev.in, ev.dec = 1) = ev.out THEN {} ELSE {V("C17", "DesBlock")}

\* obsolete API: keys are logged as 8 packed bytes (the harness expands them to 64 bytes, with
\* noise in the high bits when asked); blocks likewise.  key/in/res arrive as byte arrays kb/ib/rb.
KeyOf(o) == IF o \in DOMAIN keys THEN keys[o] ELSE <<>>
JudgeEncrypt(ev) ==
  LET k == KeyOf(ev.o) IN
  (IF ev.bits01 = 1 THEN {} ELSE {V("C17", "Bits01")})
  \cup (IF k = <<>> THEN {}
        ELSE IF DS!CryptBlockBytes(k, 0, 1, ev.ib, ev.ed # 0) = ev.rb THEN {} ELSE {V("C17", "ApiDes")})

Init == l = 1 /\ keys = [x \in {} |-> <<>>] /\ viol = {} /\ cnt = [digest |-> 0, hmac |-> 0, pbkdf2 |-> 0, des |-> 0, api |-> 0]
SetKey(o, k) == [x \in (DOMAIN keys) \cup {o} |-> IF x = o THEN k ELSE keys[x]]
Step ==
  /\ l <= Len(T)
  /\ l' = l + 1
  /\ LET ev == T[l] IN
     CASE ev.e = "digest" -> viol' = viol \cup JudgeDigest(ev) /\ cnt' = [cnt EXCEPT !.digest = @ + 1] /\ UNCHANGED keys
       [] ev.e = "hmac" -> viol' = viol \cup JudgeHmac(ev) /\ cnt' = [cnt EXCEPT !.hmac = @ + 1] /\ UNCHANGED keys
       [] ev.e = "pbkdf2" -> viol' = viol \cup JudgePbkdf2(ev) /\ cnt' = [cnt EXCEPT !.pbkdf2 = @ + 1] /\ UNCHANGED keys
       [] ev.e = "pbkdf2sel" -> viol' = viol \cup JudgePbkdf2Sel(ev) /\ cnt' = [cnt EXCEPT !.pbkdf2 = @ + 1] /\ UNCHANGED keys
       [] ev.e = "des" -> viol' = viol \cup JudgeDes(ev) /\ cnt' = [cnt EXCEPT !.des = @ + 1] /\ UNCHANGED keys
       [] ev.e \in {"setkey_r", "setkey"} -> keys' = SetKey(ev.o, ev.kb) /\ UNCHANGED <<viol, cnt>>
       [] ev.e \in {"encrypt_r", "encrypt"} -> viol' = viol \cup JudgeEncrypt(ev) /\ cnt' = [cnt EXCEPT !.api = @ + 1] /\ UNCHANGED keys
       \* any crypt*() call on an object wipes the schedule kept in it; crypt() never touches the static key
       [] ev.e \in {"crypt_rn", "crypt_r", "xcrypt_r"} -> keys' = SetKey(ev.o, <<>>) /\ UNCHANGED <<viol, cnt>>
       [] ev.e \in {"obj", "scribble"} -> keys' = SetKey(ev.o, <<>>) /\ UNCHANGED <<viol, cnt>>
       [] ev.e = "Reset" -> keys' = [x \in {} |-> <<>>] /\ UNCHANGED <<viol, cnt>>
       [] ev.e = "Fault" -> viol' = viol \cup {V("C17", "Fault")} /\ UNCHANGED <<keys, cnt>>
       [] OTHER -> UNCHANGED <<keys, viol, cnt>>
Spec == Init /\ [][Step]_vars
Finish ==
  l <= Len(T) \/
  JsonSerialize(OutFile, [consumed |-> l - 1, lines |-> Len(T), viol |-> viol, div |-> {}, cnt |-> cnt])
=============================================================================
