------------------------------ MODULE DesTables ------------------------------
(***************************************************************************)
(* The eleven generated lookup tables of alg-des-tables.c, entry by entry, *)
(* against their definitions in terms of the FIPS 46-3 tables of Des.tla.  *)
(* Every use in alg-des.c ORs together the entries selected by disjoint    *)
(* chunks of the input, so  entry(k, v) = Permutation(input whose chunk k  *)
(* is v and whose other bits are 0)  for all k, v  is equivalent to the    *)
(* table-driven permutations and S/P layer being the FIPS functions on ALL *)
(* inputs.  32-bit entries arrive as [hi16, lo16].                         *)
(***************************************************************************)
EXTENDS Des, Json, IOUtils
T == ndJsonDeserialize(IOEnv.XCV_TRACE)

Zeros(n) == [i \in 1..n |-> 0]
\* v as n bits, most significant first
NBits(v, n) == [i \in 1..n |-> (v \div (2 ^ (n - i))) % 2]
Num(bits) == FoldLeft(LAMBDA acc, b : 2 * acc + b, 0, bits)
Pair(bits32) == <<Num(SubSeq(bits32, 1, 16)), Num(SubSeq(bits32, 17, 32))>>
\* a 28-/24-bit quantity right-aligned in a 32-bit word
PairN(bits) == Pair(Zeros(32 - Len(bits)) \o bits)
Place(len, pos, chunk) == Zeros(pos - 1) \o chunk \o Zeros(len - (pos - 1) - Len(chunk))

\* expected <<l, r>> for table t, chunk k (0-based), value v
Expected(t, k, v) ==
  CASE t = "ip" -> LET o == Permute(Place(64, 8 * k + 1, NBits(v, 8)), IP) IN <<Pair(SubSeq(o, 1, 32)), Pair(SubSeq(o, 33, 64))>>
    [] t = "fp" -> LET o == Permute(Place(64, 8 * k + 1, NBits(v, 8)), FP) IN <<Pair(SubSeq(o, 1, 32)), Pair(SubSeq(o, 33, 64))>>
    \* key byte k with its top seven bits = v (the parity bit is not an input of PC-1)
    [] t = "keyperm" -> LET o == Permute(Place(64, 8 * k + 1, NBits(v, 7) \o <<0>>), PC1) IN <<PairN(SubSeq(o, 1, 28)), PairN(SubSeq(o, 29, 56))>>
    \* seven bits of C (k < 4) or D (k >= 4) at chunk k, through PC-2, split into two 24-bit halves
    [] t = "comp" -> LET o == Permute(Place(56, 7 * k + 1, NBits(v, 7)), PC2) IN <<PairN(SubSeq(o, 1, 24)), PairN(SubSeq(o, 25, 48))>>
    \* the 8 output bits of S-boxes 2k+1, 2k+2 placed in the 32-bit S-layer output, through P
    [] t = "psbox" -> <<Pair(Permute(Place(32, 8 * k + 1, NBits(v, 8)), P)), <<0, 0>>>>
MsboxExpected(k, x) == Num(SOut(2 * k + 1, NBits(x \div 64, 6)) \o SOut(2 * k + 2, NBits(x % 64, 6)))

Bad(ev) ==
  IF ev.t = "msbox" THEN {[t |-> ev.t, k |-> ev.k, v |-> x - 1] : x \in {y \in 1..Len(ev.l) : ev.l[y] # MsboxExpected(ev.k, y - 1)}}
  ELSE {[t |-> ev.t, k |-> ev.k, v |-> x - 1] :
          x \in {y \in 1..Len(ev.l) : LET e == Expected(ev.t, ev.k, y - 1) IN
                                       ev.l[y] # e[1] \/ (ev.t # "psbox" /\ ev.r[y] # e[2])}}

VARIABLES l, bad, n
Init == l = 1 /\ bad = {} /\ n = 0
Next == /\ l <= Len(T) /\ l' = l + 1
        /\ IF T[l].e = "destab" THEN bad' = bad \cup Bad(T[l]) /\ n' = n + Len(T[l].l) * (IF Len(T[l].r) > 0 THEN 2 ELSE 1)
           ELSE UNCHANGED <<bad, n>>
Spec == Init /\ [][Next]_<<l, bad, n>>
Finish == l <= Len(T) \/ JsonSerialize(IOEnv.XCV_VERDICT, [consumed |-> l - 1, lines |-> Len(T), bad |-> bad, entries |-> n])
=============================================================================
