------------------------------- MODULE Digest -------------------------------
(***************************************************************************)
(* The Merkle-Damgaard streaming layer of MD4, MD5, SHA-1, SHA-256 and     *)
(* SHA-512, and the GOST R 34.11-2012 (Streebog) construction, over an     *)
(* UNINTERPRETED compression function: the standard digest of a message    *)
(* is the fold of the compression function over Split(Pad(msg)) from the   *)
(* standard IV, encoded with the algorithm's word order.  The compression  *)
(* function itself is supplied as a finite graph `cfs` (sequence of        *)
(* [in, blk, out] records) learned from the execution being validated.     *)
(* States are byte sequences in the memory layout of the implementation's  *)
(* state words on this (little-endian) host.                               *)
(***************************************************************************)
EXTENDS Naturals, Integers, Sequences, FiniteSets, TLC, SequencesExt

Algs == {"md4", "md5", "sha1", "sha256", "sha512", "gost256", "gost512"}
BlockSize(a) == IF a = "sha512" THEN 128 ELSE 64
LenBytes(a)  == IF a = "sha512" THEN 16 ELSE 8
BigEndianLen(a) == a \in {"sha1", "sha256", "sha512"}
WordSize(a) == CASE a \in {"md4", "md5"} -> 1 [] a \in {"sha1", "sha256"} -> 4 [] a = "sha512" -> 8 [] OTHER -> 1

IV(a) == CASE a \in {"md4", "md5"} -> <<1,35,69,103,137,171,205,239,254,220,186,152,118,84,50,16>>
           [] a = "sha1" -> <<1,35,69,103,137,171,205,239,254,220,186,152,118,84,50,16,240,225,210,195>>
           [] a = "sha256" -> <<103,230,9,106,133,174,103,187,114,243,110,60,58,245,79,165,127,82,14,81,140,104,5,155,171,217,131,31,25,205,224,91>>
           [] a = "sha512" -> <<8,201,188,243,103,230,9,106,59,167,202,132,133,174,103,187,43,248,148,254,114,243,110,60,241,54,29,95,58,245,79,165,209,130,230,173,127,82,14,81,31,108,62,43,140,104,5,155,107,189,65,251,171,217,131,31,121,33,126,19,25,205,224,91>>
           [] a = "gost256" -> [i \in 1..64 |-> 1]
           [] a = "gost512" -> [i \in 1..64 |-> 0]

Zeros(n) == [i \in 1..n |-> 0]
\* n as `w` bytes, little / big endian (n < 2^31)
RECURSIVE LEBytes(_, _)
LEBytes(n, w) == IF w = 0 THEN <<>> ELSE <<n % 256>> \o LEBytes(n \div 256, w - 1)
Rev(s) == [i \in 1..Len(s) |-> s[Len(s) + 1 - i]]
BEBytes(n, w) == Rev(LEBytes(n, w))

\* RFC 1321 / FIPS 180: 0x80, zeros up to the length field, bit length
Pad(a, msg) ==
  LET B == BlockSize(a)  L == LenBytes(a)  n == Len(msg)
      k == (B - ((n + 1 + L) % B)) % B
      lenf == IF BigEndianLen(a) THEN BEBytes(8 * n, L) ELSE LEBytes(8 * n, L) IN
  msg \o <<128>> \o Zeros(k) \o lenf
Chunks(s, B) == [i \in 1..(Len(s) \div B) |-> SubSeq(s, (i - 1) * B + 1, i * B)]

\* the learned compression function
Lookup(cfs, in, blk) ==
  LET I == {i \in 1..Len(cfs) : cfs[i].in = in /\ cfs[i].blk = blk} IN
  IF I = {} THEN <<>> ELSE cfs[CHOOSE i \in I : \A j \in I : i <= j].out
\* (FoldLeft is evaluated iteratively on concrete values; RECURSIVE operators get lazy arguments)
Fold(cfs, st0, blocks) ==
  FoldLeft(LAMBDA st, b : IF st = <<>> THEN <<>> ELSE Lookup(cfs, st, b), st0, blocks)

\* digest bytes from the final state: words are stored big-endian for the SHA family
Encode(a, st) ==
  LET w == WordSize(a) IN
  IF w = 1 THEN st ELSE [i \in 1..Len(st) |-> st[((i - 1) \div w) * w + (w - ((i - 1) % w))]]

MDDigest(a, msg, cfs) ==
  LET st == Fold(cfs, IV(a), Chunks(Pad(a, msg), BlockSize(a))) IN
  IF st = <<>> THEN <<>> ELSE Encode(a, st)

\* ---- Streebog ------------------------------------------------------------
\* 512-bit little-endian counters as 64-byte sequences
Seq1To(n) == [i \in 1..n |-> i]
Add512(x, y) ==
  FoldLeft(LAMBDA acc, i : LET s == x[i] + y[i] + acc.carry IN [sum |-> Append(acc.sum, s % 256), carry |-> s \div 256],
           [sum |-> <<>>, carry |-> 0], Seq1To(64)).sum
Num512(n) == LEBytes(n, 4) \o Zeros(60)
G(cfs, h, N, m) == IF h = <<>> THEN <<>> ELSE Lookup(cfs, h \o N, m)
\* [h, N, S, off] after all complete 64-byte blocks of msg
GostBlocks(cfs, msg, h0) ==
  FoldLeft(LAMBDA acc, k :
             LET m == SubSeq(msg, acc.off + 1, acc.off + 64) IN
             [h |-> G(cfs, acc.h, acc.N, m), N |-> Add512(acc.N, Num512(512)), S |-> Add512(acc.S, m), off |-> acc.off + 64],
           [h |-> h0, N |-> Zeros(64), S |-> Zeros(64), off |-> 0], Seq1To(Len(msg) \div 64))
GostDigest(a, msg, cfs) ==
  LET s2 == GostBlocks(cfs, msg, IV(a))
      r  == SubSeq(msg, s2.off + 1, Len(msg))
      mp == r \o <<1>> \o Zeros(63 - Len(r))
      h1 == G(cfs, s2.h, s2.N, mp)
      N1 == Add512(s2.N, Num512(8 * Len(r)))
      S1 == Add512(s2.S, mp)
      h2 == G(cfs, h1, Zeros(64), N1)
      h3 == G(cfs, h2, Zeros(64), S1) IN
  IF h3 = <<>> THEN <<>> ELSE IF a = "gost256" THEN SubSeq(h3, 33, 64) ELSE h3

StdDigest(a, msg, cfs) == IF a \in {"gost256", "gost512"} THEN GostDigest(a, msg, cfs) ELSE MDDigest(a, msg, cfs)
=============================================================================
