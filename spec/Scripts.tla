------------------------------- MODULE Scripts -------------------------------
(***************************************************************************)
(* The published hashing algorithms as FUNCTIONS of (passphrase, setting): *)
(*  - the DES family (traditional crypt(3), Digital UNIX bigcrypt, BSDi    *)
(*    extended DES) is specified completely: TLC computes the hash string  *)
(*    itself with Des.tla, no reference implementation, no facts;          *)
(*  - md5crypt (PHK), SHA-crypt (Drepper), sunmd5, NT and sha1crypt are    *)
(*    specified over an uninterpreted digest: the digest of a message is   *)
(*    looked up in the facts [m, d] recorded from the very execution being *)
(*    validated (which C16 validates against the standard construction).   *)
(* p = passphrase bytes, s = setting character codes.                      *)
(***************************************************************************)
EXTENDS Naturals, Integers, Sequences, FiniteSets, TLC, SequencesExt
S  == INSTANCE Settings
DS == INSTANCE Des

Seq1To(n) == [i \in 1..n |-> i]
Zeros(n) == [i \in 1..n |-> 0]
\* ---- DES family ----------------------------------------------------------
\* eight key bytes from the phrase at offset off: each character shifted left one bit (8th bit lost)
KeyBits(p, off) == DS!BytesToBits([i \in 1..8 |-> IF off + i <= Len(p) THEN (p[off + i] * 2) % 256 ELSE 0])
\* 64 bits -> 11 characters, most significant 6 bits first, zero padded
Enc11(bits64) == LET b == bits64 \o <<0, 0>> IN
  [k \in 1..11 |-> S!B64Chr(b[6*k-5] * 32 + b[6*k-4] * 16 + b[6*k-3] * 8 + b[6*k-2] * 4 + b[6*k-1] * 2 + b[6*k])]
Salt2(c1, c2) == S!B64Val(c1) + 64 * S!B64Val(c2)
DesHash(p, off, salt, count) == Enc11(DS!CryptBlock(KeyBits(p, off), salt, count, Zeros(64), FALSE))

Descrypt(p, s) == <<s[1], s[2]>> \o DesHash(p, 0, Salt2(s[1], s[2]), 25)

\* bigcrypt: up to 16 segments of 8 characters; each later segment is salted with the first two
\* characters of the previous segment's output
Bigcrypt(p, s) ==
  LET nseg == S!Max(1, S!Min(16, (Len(p) + 7) \div 8)) IN
  FoldLeft(LAMBDA acc, k : LET h == DesHash(p, 8 * (k - 1), acc.salt, 25) IN
                           [out |-> acc.out \o h, salt |-> Salt2(h[1], h[2])],
           [out |-> <<s[1], s[2]>>, salt |-> Salt2(s[1], s[2])], Seq1To(nseg)).out

\* BSDi: '_' count(4) salt(4); long phrases are folded into one key by DES-CBC-MAC-like chaining
Val4(s, from) == S!B64Val(s[from]) + 64 * S!B64Val(s[from + 1]) + 4096 * S!B64Val(s[from + 2]) + 262144 * S!B64Val(s[from + 3])
Bsdicrypt(p, s) ==
  LET count == Val4(s, 2)  salt == Val4(s, 6)
      nblk == S!Max(1, (Len(p) + 7) \div 8)
      key == FoldLeft(LAMBDA pk, k :                       \* pk = previous round output (64 bits), k-th block
                        LET kb == DS!Xor(pk, KeyBits(p, 8 * (k - 1))) IN
                        IF k = nblk THEN kb ELSE DS!CryptBlock(kb, 0, 1, kb, FALSE),
                      Zeros(64), Seq1To(nblk))
  IN SubSeq(s, 1, 9) \o Enc11(DS!CryptBlock(key, salt, count, Zeros(64), FALSE))

\* the hash the DES-family method m must return for an accepted request
DesScript(m, p, s) ==
  CASE m = "descrypt" -> Descrypt(p, s)
    [] m = "bigcrypt" -> IF Len(p) > 8 /\ Len(s) <= 13 THEN Descrypt(p, s) ELSE Bigcrypt(p, s)
    [] m = "bsdicrypt" -> Bsdicrypt(p, s)

\* ---- digest-based methods, over the compression graph observed in the call --------------
D == INSTANCE Digest
M == INSTANCE Mac
\* cfs: sequence of [a, in, blk, out]; the digest of msg under algorithm a (<<>> if a needed application is missing)
\* cfs is either the flat sequence of applications [a, in, blk, out] (searched as a whole: fully
\* extensional), or -- for calls with tens of thousands of applications (sunmd5) -- a record
\* [k |-> "inst", c |-> sequence of chains], each chain [a, c] being a maximal run of applications in which every
\* `in` is the previous `out` (split structurally by the driver); a digest is then looked for among the
\* chains that start with the message's first block.
HookName(a) == IF a \in {"gost256", "gost512"} THEN "streebog" ELSE a
CfsOf(cfs, a) == SelectSeq(cfs, LAMBDA c : c.a = HookName(a))
HInst(inst, a, msg) ==
  LET bs == D!Chunks(D!Pad(a, msg), D!BlockSize(a))
      n == Len(bs)
      \* candidates: chains of the right length whose first and last blocks are the message's
      C == {i \in 1..Len(inst) : inst[i].a = HookName(a) /\ Len(inst[i].c) = n /\ inst[i].c[1].blk = bs[1] /\ inst[i].c[n].blk = bs[n]}
      R == {D!StdDigest(a, msg, inst[i].c) : i \in C} \ {<<>>} IN
  IF R = {} THEN <<>> ELSE CHOOSE r \in R : TRUE
H(cfs, a, msg) == IF cfs.k = "inst" THEN HInst(cfs.c, a, msg) ELSE D!StdDigest(a, msg, CfsOf(cfs.c, a))
Rep(x, n) == [i \in 1..n |-> x[((i - 1) % Len(x)) + 1]]          \* x recycled to n bytes (n = 0: empty)
RECURSIVE BitLoop(_, _, _)
\* for (cnt = n; cnt > 0; cnt >>= 1): one(cnt odd) or zero(cnt even) appended
BitLoop(n, one, zero) == IF n = 0 THEN <<>> ELSE (IF (n % 2) = 1 THEN one ELSE zero) \o BitLoop(n \div 2, one, zero)
\* b64_from_24bit(B2, B1, B0, N): N characters, least significant 6 bits first; -1 = constant 0
Byte(r, i) == IF i < 0 THEN 0 ELSE r[i + 1]
Enc24(r, g) == LET w == Byte(r, g[1]) * 65536 + Byte(r, g[2]) * 256 + Byte(r, g[3]) IN
               [k \in 1..g[4] |-> S!B64Chr((w \div (64 ^ (k - 1))) % 64)]
EncGroups(r, gs) == FoldLeft(LAMBDA acc, g : acc \o Enc24(r, g), <<>>, gs)
G_md5 == <<<<0,6,12,4>>, <<1,7,13,4>>, <<2,8,14,4>>, <<3,9,15,4>>, <<4,10,5,4>>, <<-1,-1,11,2>>>>
G_256 == <<<<0,10,20,4>>, <<21,1,11,4>>, <<12,22,2,4>>, <<3,13,23,4>>, <<24,4,14,4>>, <<15,25,5,4>>, <<6,16,26,4>>, <<27,7,17,4>>, <<18,28,8,4>>, <<9,19,29,4>>, <<-1,31,30,3>>>>
G_512 == <<<<0,21,42,4>>, <<22,43,1,4>>, <<44,2,23,4>>, <<3,24,45,4>>, <<25,46,4,4>>, <<47,5,26,4>>, <<6,27,48,4>>, <<28,49,7,4>>, <<50,8,29,4>>, <<9,30,51,4>>, <<31,52,10,4>>, <<53,11,32,4>>, <<12,33,54,4>>, <<34,55,13,4>>, <<56,14,35,4>>, <<15,36,57,4>>, <<37,58,16,4>>, <<59,17,38,4>>, <<18,39,60,4>>, <<40,61,19,4>>, <<62,20,41,4>>, <<-1,-1,63,2>>>>
Bad == <<>>      \* a needed compression-function application was not observed

\* md5crypt (Poul-Henning Kamp, FreeBSD 2.0)
Md5crypt(cfs, p, salt) ==
  LET alt == H(cfs, "md5", p \o salt \o p) IN
  IF alt = <<>> THEN Bad ELSE
  LET i0 == H(cfs, "md5", p \o S!S_1 \o salt \o Rep(alt, Len(p)) \o BitLoop(Len(p), <<0>>, IF Len(p) > 0 THEN <<p[1]>> ELSE <<>>))
      fin == FoldLeft(LAMBDA r, i : IF r = <<>> THEN <<>> ELSE
                        H(cfs, "md5", (IF (i % 2) = 1 THEN p ELSE r) \o (IF (i % 3) # 0 THEN salt ELSE <<>>)
                                      \o (IF (i % 7) # 0 THEN p ELSE <<>>) \o (IF (i % 2) = 1 THEN r ELSE p)),
                      i0, [k \in 1..1000 |-> k - 1]) IN
  IF fin = <<>> THEN Bad ELSE S!S_1 \o salt \o <<36>> \o EncGroups(fin, G_md5)

\* SHA-crypt (Ulrich Drepper, "Unix crypt using SHA-256 and SHA-512"), a = "sha256" | "sha512"
Shacrypt(cfs, a, p, salt, rounds, head) ==
  LET hl == IF a = "sha256" THEN 32 ELSE 64
      b  == H(cfs, a, p \o salt \o p) IN
  IF b = <<>> THEN Bad ELSE
  LET a0 == H(cfs, a, p \o salt \o Rep(b, Len(p)) \o BitLoop(Len(p), b, p))
      dp == H(cfs, a, Rep(p, Len(p) * Len(p))) IN
  IF a0 = <<>> \/ dp = <<>> THEN Bad ELSE
  LET dsb == H(cfs, a, Rep(salt, Len(salt) * (16 + a0[1]))) IN
  IF dsb = <<>> THEN Bad ELSE
  LET ps == Rep(dp, Len(p))  ss == Rep(dsb, Len(salt))
      fin == FoldLeft(LAMBDA r, i : IF r = <<>> THEN <<>> ELSE
                        H(cfs, a, (IF (i % 2) = 1 THEN ps ELSE r) \o (IF (i % 3) # 0 THEN ss ELSE <<>>)
                                  \o (IF (i % 7) # 0 THEN ps ELSE <<>>) \o (IF (i % 2) = 1 THEN r ELSE ps)),
                      a0, [k \in 1..rounds |-> k - 1]) IN
  IF fin = <<>> THEN Bad ELSE head \o salt \o <<36>> \o EncGroups(fin, IF a = "sha256" THEN G_256 ELSE G_512)

\* NT: MD4 of the UCS-2LE expansion, lower-case hex
Hex(b) == LET h(n) == IF n < 10 THEN 48 + n ELSE 87 + n IN <<h(b \div 16), h(b % 16)>>
NtHash(cfs, p) ==
  LET d == H(cfs, "md4", [i \in 1..(2 * Len(p)) |-> IF (i % 2) = 1 THEN p[(i + 1) \div 2] ELSE 0]) IN
  IF d = <<>> THEN Bad ELSE S!S_3 \o <<36>> \o FoldLeft(LAMBDA acc, x : acc \o Hex(x), <<>>, d)

\* sunmd5 (Alec Muffett): 4096 + rounds rounds; a coin toss on the previous digest decides whether the
\* Hamlet soliloquy (1517 bytes including its NUL) is mixed in
Hamlet == <<84,111,32,98,101,44,32,111,114,32,110,111,116,32,116,111,32,98,101,44,45,45,116,104,97,116,32,105,115,32,116,104,101,32,113,117,101,115,116,105,111,110,58,45,45,10,87,104,101,116,104,101,114,32,39,116,105,115,32,110,111,98,108,101,114,32,105,110,32,116,104,101,32,109,105,110,100,32,116,111,32,115,117,102,102,101,114,10,84,104,101,32,115,108,105,110,103,115,32,97,110,100,32,97,114,114,111,119,115,32,111,102,32,111,117,116,114,97,103,101,111,117,115,32,102,111,114,116,117,110,101,10,79,114,32,116,111,32,116,97,107,101,32,97,114,109,115,32,97,103,97,105,110,115,116,32,97,32,115,101,97,32,111,102,32,116,114,111,117,98,108,101,115,44,10,65,110,100,32,98,121,32,111,112,112,111,115,105,110,103,32,101,110,100,32,116,104,101,109,63,45,45,84,111,32,100,105,101,44,45,45,116,111,32,115,108,101,101,112,44,45,45,10,78,111,32,109,111,114,101,59,32,97,110,100,32,98,121,32,97,32,115,108,101,101,112,32,116,111,32,115,97,121,32,119,101,32,101,110,100,10,84,104,101,32,104,101,97,114,116,97,99,104,101,44,32,97,110,100,32,116,104,101,32,116,104,111,117,115,97,110,100,32,110,97,116,117,114,97,108,32,115,104,111,99,107,115,10,84,104,97,116,32,102,108,101,115,104,32,105,115,32,104,101,105,114,32,116,111,44,45,45,39,116,105,115,32,97,32,99,111,110,115,117,109,109,97,116,105,111,110,10,68,101,118,111,117,116,108,121,32,116,111,32,98,101,32,119,105,115,104,39,100,46,32,84,111,32,100,105,101,44,45,45,116,111,32,115,108,101,101,112,59,45,45,10,84,111,32,115,108,101,101,112,33,32,112,101,114,99,104,97,110,99,101,32,116,111,32,100,114,101,97,109,58,45,45,97,121,44,32,116,104,101,114,101,39,115,32,116,104,101,32,114,117,98,59,10,70,111,114,32,105,110,32,116,104,97,116,32,115,108,101,101,112,32,111,102,32,100,101,97,116,104,32,119,104,97,116,32,100,114,101,97,109,115,32,109,97,121,32,99,111,109,101,44,10,87,104,101,110,32,119,101,32,104,97,118,101,32,115,104,117,102,102,108,101,100,32,111,102,102,32,116,104,105,115,32,109,111,114,116,97,108,32,99,111,105,108,44,10,77,117,115,116,32,103,105,118,101,32,117,115,32,112,97,117,115,101,58,32,116,104,101,114,101,39,115,32,116,104,101,32,114,101,115,112,101,99,116,10,84,104,97,116,32,109,97,107,101,115,32,99,97,108,97,109,105,116,121,32,111,102,32,115,111,32,108,111,110,103,32,108,105,102,101,59,10,70,111,114,32,119,104,111,32,119,111,117,108,100,32,98,101,97,114,32,116,104,101,32,119,104,105,112,115,32,97,110,100,32,115,99,111,114,110,115,32,111,102,32,116,105,109,101,44,10,84,104,101,32,111,112,112,114,101,115,115,111,114,39,115,32,119,114,111,110,103,44,32,116,104,101,32,112,114,111,117,100,32,109,97,110,39,115,32,99,111,110,116,117,109,101,108,121,44,10,84,104,101,32,112,97,110,103,115,32,111,102,32,100,101,115,112,105,115,39,100,32,108,111,118,101,44,32,116,104,101,32,108,97,119,39,115,32,100,101,108,97,121,44,10,84,104,101,32,105,110,115,111,108,101,110,99,101,32,111,102,32,111,102,102,105,99,101,44,32,97,110,100,32,116,104,101,32,115,112,117,114,110,115,10,84,104,97,116,32,112,97,116,105,101,110,116,32,109,101,114,105,116,32,111,102,32,116,104,101,32,117,110,119,111,114,116,104,121,32,116,97,107,101,115,44,10,87,104,101,110,32,104,101,32,104,105,109,115,101,108,102,32,109,105,103,104,116,32,104,105,115,32,113,117,105,101,116,117,115,32,109,97,107,101,10,87,105,116,104,32,97,32,98,97,114,101,32,98,111,100,107,105,110,63,32,119,104,111,32,119,111,117,108,100,32,116,104,101,115,101,32,102,97,114,100,101,108,115,32,98,101,97,114,44,10,84,111,32,103,114,117,110,116,32,97,110,100,32,115,119,101,97,116,32,117,110,100,101,114,32,97,32,119,101,97,114,121,32,108,105,102,101,44,10,66,117,116,32,116,104,97,116,32,116,104,101,32,100,114,101,97,100,32,111,102,32,115,111,109,101,116,104,105,110,103,32,97,102,116,101,114,32,100,101,97,116,104,44,45,45,10,84,104,101,32,117,110,100,105,115,99,111,118,101,114,39,100,32,99,111,117,110,116,114,121,44,32,102,114,111,109,32,119,104,111,115,101,32,98,111,117,114,110,10,78,111,32,116,114,97,118,101,108,108,101,114,32,114,101,116,117,114,110,115,44,45,45,112,117,122,122,108,101,115,32,116,104,101,32,119,105,108,108,44,10,65,110,100,32,109,97,107,101,115,32,117,115,32,114,97,116,104,101,114,32,98,101,97,114,32,116,104,111,115,101,32,105,108,108,115,32,119,101,32,104,97,118,101,10,84,104,97,110,32,102,108,121,32,116,111,32,111,116,104,101,114,115,32,116,104,97,116,32,119,101,32,107,110,111,119,32,110,111,116,32,111,102,63,10,84,104,117,115,32,99,111,110,115,99,105,101,110,99,101,32,100,111,101,115,32,109,97,107,101,32,99,111,119,97,114,100,115,32,111,102,32,117,115,32,97,108,108,59,10,65,110,100,32,116,104,117,115,32,116,104,101,32,110,97,116,105,118,101,32,104,117,101,32,111,102,32,114,101,115,111,108,117,116,105,111,110,10,73,115,32,115,105,99,107,108,105,101,100,32,111,39,101,114,32,119,105,116,104,32,116,104,101,32,112,97,108,101,32,99,97,115,116,32,111,102,32,116,104,111,117,103,104,116,59,10,65,110,100,32,101,110,116,101,114,112,114,105,115,101,115,32,111,102,32,103,114,101,97,116,32,112,105,116,104,32,97,110,100,32,109,111,109,101,110,116,44,10,87,105,116,104,32,116,104,105,115,32,114,101,103,97,114,100,44,32,116,104,101,105,114,32,99,117,114,114,101,110,116,115,32,116,117,114,110,32,97,119,114,121,44,10,65,110,100,32,108,111,115,101,32,116,104,101,32,110,97,109,101,32,111,102,32,97,99,116,105,111,110,46,45,45,83,111,102,116,32,121,111,117,32,110,111,119,33,10,84,104,101,32,102,97,105,114,32,79,112,104,101,108,105,97,33,45,45,78,121,109,112,104,44,32,105,110,32,116,104,121,32,111,114,105,115,111,110,115,10,66,101,32,97,108,108,32,109,121,32,115,105,110,115,32,114,101,109,101,109,98,101,114,39,100,46,10,0>>
NthBit(dg, n) == LET k == n % 128 IN (dg[(k \div 8) + 1] \div (2 ^ (k % 8))) % 2
CoinHalf(dg, i, off) ==
  LET a == dg[((i + off) % 16) + 1]  b == dg[((i + off + 3) % 16) + 1]
      r == a \div (2 ^ (b % 5))
      v0 == dg[(r % 16) + 1]
      v == IF (b \div (2 ^ (a % 8))) % 2 = 1 THEN v0 \div 2 ELSE v0 IN
  NthBit(dg, v)
CoinToss(dg, round) ==
  LET x0 == FoldLeft(LAMBDA acc, i : acc + CoinHalf(dg, i, 0) * (2 ^ i), 0, [k \in 1..8 |-> k - 1])
      y0 == FoldLeft(LAMBDA acc, i : acc + CoinHalf(dg, i, 8) * (2 ^ i), 0, [k \in 1..8 |-> k - 1])
      x == IF NthBit(dg, round) = 1 THEN x0 \div 2 ELSE x0
      y == IF NthBit(dg, round + 64) = 1 THEN y0 \div 2 ELSE y0 IN
  NthBit(dg, x) # NthBit(dg, y)
Sunmd5(cfs, p, canon, nrounds) ==
  LET d0 == H(cfs, "md5", p \o canon)
      fin == FoldLeft(LAMBDA dg, i : IF dg = <<>> THEN <<>> ELSE
                        H(cfs, "md5", dg \o (IF CoinToss(dg, i) THEN Hamlet ELSE <<>>) \o S!NatToDec(i)),
                      d0, [k \in 1..nrounds |-> k - 1]) IN
  IF fin = <<>> THEN Bad ELSE
  canon \o <<36>> \o EncGroups(fin, G_md5)        \* the same permuted order as md5crypt

\* sha1crypt (NetBSD): PBKDF1 with HMAC-SHA1 keyed by the passphrase
HmacSha1(cfs, key, msg) ==
  LET k0 == IF Len(key) > 64 THEN H(cfs, "sha1", key) ELSE key IN
  IF k0 = <<>> /\ Len(key) > 64 THEN <<>> ELSE
  LET kp == k0 \o Zeros(64 - Len(k0))
      inner == H(cfs, "sha1", M!XorC(kp, 54) \o msg) IN
  IF inner = <<>> THEN <<>> ELSE H(cfs, "sha1", M!XorC(kp, 92) \o inner)
Sha1crypt(cfs, p, salt, iters) ==          \* iters: canonical decimal digits, value < 2^31
  LET n == S!DecVal(iters)
      u1 == HmacSha1(cfs, p, salt \o S!S_sha1d \o iters)
      fin == FoldLeft(LAMBDA u, i : IF u = <<>> THEN <<>> ELSE HmacSha1(cfs, p, u), u1, Seq1To(IF n > 0 THEN n - 1 ELSE 0))
      \* to64(v, 4): least significant 6 bits first of (b0<<16 | b1<<8 | b2); the last group wraps to byte 0
      grp(a, b, c) == LET w == fin[a + 1] * 65536 + fin[b + 1] * 256 + fin[c + 1] IN
                      [k \in 1..4 |-> S!B64Chr((w \div (64 ^ (k - 1))) % 64)] IN
  IF fin = <<>> THEN Bad ELSE
  S!S_sha1d \o iters \o <<36>> \o salt \o <<36>> \o grp(0, 1, 2) \o grp(3, 4, 5) \o grp(6, 7, 8) \o grp(9, 10, 11)
     \o grp(12, 13, 14) \o grp(15, 16, 17) \o grp(18, 19, 0)

\* gost-yescrypt: HMAC_GOSTR3411_2012_256(HMAC_GOSTR3411_2012_256(GOST2012_256(K), S), yescrypt(K, S)), where the
\* yescrypt value is taken from the library's own $y$ result for the same parameters and salt (yhash)
GS == INSTANCE Gensalt
HmacGost(cfs, key, msg) ==
  LET kp == key \o Zeros(64 - Len(key))
      inner == H(cfs, "gost256", M!XorC(kp, 54) \o msg) IN
  IF inner = <<>> THEN <<>> ELSE H(cfs, "gost256", M!XorC(kp, 92) \o inner)
\* inverse of the yescrypt base-64 (groups of 4 characters = 24 bits, least significant first)
Dec64LE(cs) ==
  FoldLeft(LAMBDA acc, g :
             LET k == S!Min(4, Len(cs) - 4 * (g - 1))
                 v == FoldLeft(LAMBDA a2, j : a2 + S!B64Val(cs[4 * (g - 1) + j]) * (64 ^ (j - 1)), 0, Seq1To(k))
                 nb == IF k = 4 THEN 3 ELSE k - 1 IN
             acc \o [b \in 1..nb |-> (v \div (256 ^ (b - 1))) % 256],
           <<>>, Seq1To((Len(cs) + 3) \div 4))
GostYescrypt(cfs, p, canon, yhash) ==
  LET y == Dec64LE(SubSeq(yhash, Len(yhash) - 42, Len(yhash)))
      hk == H(cfs, "gost256", p) IN
  IF hk = <<>> THEN Bad ELSE
  LET interm == HmacGost(cfs, hk, canon) IN
  IF interm = <<>> THEN Bad ELSE
  LET y2 == HmacGost(cfs, interm, y) IN
  IF y2 = <<>> THEN Bad ELSE canon \o <<36>> \o GS!Enc64LE(y2)

\* dispatcher: the hash method m must return; "skip" when the method has no script here
SaltOf(canon, n) == S!Drop(canon, n)
Script(m, cfs, p, s, pr) ==      \* pr = Settings!Parse record (canon, and rounds/iters where present)
  CASE m \in {"descrypt", "bigcrypt", "bsdicrypt"} -> DesScript(m, p, s)
    [] m = "md5crypt" -> Md5crypt(cfs, p, SaltOf(pr.canon, 3))
    [] m = "nt" -> NtHash(cfs, p)
    [] m \in {"sha256crypt", "sha512crypt"} ->
         LET a == IF m = "sha256crypt" THEN "sha256" ELSE "sha512"
             custom == "rounds" \in DOMAIN pr
             rounds == IF custom THEN S!DecVal(pr.rounds) ELSE 5000
             salt == IF custom THEN S!Drop(pr.canon, 3 + 7 + Len(pr.rounds) + 1) ELSE S!Drop(pr.canon, 3) IN
         Shacrypt(cfs, a, p, salt, rounds, SubSeq(pr.canon, 1, Len(pr.canon) - Len(salt)))
    [] m = "sha1crypt" -> Sha1crypt(cfs, p, S!Drop(pr.canon, 6 + Len(pr.iters) + 1), pr.iters)
    [] m = "sunmd5" -> Sunmd5(cfs, p, pr.canon, 4096 + S!DecVal(pr.arounds))
    [] OTHER -> <<"skip">>
=============================================================================
