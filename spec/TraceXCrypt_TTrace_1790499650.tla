---- MODULE TraceXCrypt_TTrace_1790499650 ----
EXTENDS Sequences, TLCExt, Toolbox, Naturals, TLC, TraceXCrypt

_expression ==
    LET TraceXCrypt_TEExpression == INSTANCE TraceXCrypt_TEExpression
    IN TraceXCrypt_TEExpression!expression
----

_trace ==
    LET TraceXCrypt_TETrace == INSTANCE TraceXCrypt_TETrace
    IN TraceXCrypt_TETrace!trace
----

_inv ==
    ~(
        TLCGet("level") = Len(_TETrace)
        /\
        div = ({})
        /\
        st = ((0 :> [scr |-> <<"clean">>, out |-> <<"zero">>]))
        /\
        viol = ({})
        /\
        cnt = ([failed |-> 0, faulted |-> 0, ok |-> 0, calls |-> 0, ant |-> [Shape |-> 0, FailClosed |-> 0, ShortSizes |-> 0, Wiped |-> 0, Result |-> 0, Grow |-> 0, FailClosedStaleErrno |-> 0, ResultNonzeroErrno |-> 0, UninitDependence |-> 0, AsIfAlone |-> 0, Handle |-> 0, RoundTrip |-> 0, Distinct |-> 0, FalseAcceptProbe |-> 0, Literal |-> 0, Released |-> 0, Balanced |-> 0, KdfParams |-> 0]])
        /\
        l = (2)
    )
----

_init ==
    /\ l = _TETrace[1].l
    /\ viol = _TETrace[1].viol
    /\ cnt = _TETrace[1].cnt
    /\ st = _TETrace[1].st
    /\ div = _TETrace[1].div
----

_next ==
    /\ \E i,j \in DOMAIN _TETrace:
        /\ \/ /\ j = i + 1
              /\ i = TLCGet("level")
        /\ l  = _TETrace[i].l
        /\ l' = _TETrace[j].l
        /\ viol  = _TETrace[i].viol
        /\ viol' = _TETrace[j].viol
        /\ cnt  = _TETrace[i].cnt
        /\ cnt' = _TETrace[j].cnt
        /\ st  = _TETrace[i].st
        /\ st' = _TETrace[j].st
        /\ div  = _TETrace[i].div
        /\ div' = _TETrace[j].div

\* Uncomment the ASSUME below to write the states of the error trace
\* to the given file in Json format. Note that you can pass any tuple
\* to `JsonSerialize`. For example, a sub-sequence of _TETrace.
    \* ASSUME
    \*     LET J == INSTANCE Json
    \*         IN J!JsonSerialize("TraceXCrypt_TTrace_1790499650.json", _TETrace)

=============================================================================

 Note that you can extract this module `TraceXCrypt_TEExpression`
  to a dedicated file to reuse `expression` (the module in the 
  dedicated `TraceXCrypt_TEExpression.tla` file takes precedence 
  over the module `TraceXCrypt_TEExpression` below).

---- MODULE TraceXCrypt_TEExpression ----
EXTENDS Sequences, TLCExt, Toolbox, Naturals, TLC, TraceXCrypt

expression == 
    [
        \* To hide variables of the `TraceXCrypt` spec from the error trace,
        \* remove the variables below.  The trace will be written in the order
        \* of the fields of this record.
        l |-> l
        ,viol |-> viol
        ,cnt |-> cnt
        ,st |-> st
        ,div |-> div
        
        \* Put additional constant-, state-, and action-level expressions here:
        \* ,_stateNumber |-> _TEPosition
        \* ,_lUnchanged |-> l = l'
        
        \* Format the `l` variable as Json value.
        \* ,_lJson |->
        \*     LET J == INSTANCE Json
        \*     IN J!ToJson(l)
        
        \* Lastly, you may build expressions over arbitrary sets of states by
        \* leveraging the _TETrace operator.  For example, this is how to
        \* count the number of times a spec variable changed up to the current
        \* state in the trace.
        \* ,_lModCount |->
        \*     LET F[s \in DOMAIN _TETrace] ==
        \*         IF s = 1 THEN 0
        \*         ELSE IF _TETrace[s].l # _TETrace[s-1].l
        \*             THEN 1 + F[s-1] ELSE F[s-1]
        \*     IN F[_TEPosition - 1]
    ]

=============================================================================



Parsing and semantic processing can take forever if the trace below is long.
 In this case, it is advised to uncomment the module below to deserialize the
 trace from a generated binary file.

\*
\*---- MODULE TraceXCrypt_TETrace ----
\*EXTENDS IOUtils, TLC, TraceXCrypt
\*
\*trace == IODeserialize("TraceXCrypt_TTrace_1790499650.bin", TRUE)
\*
\*=============================================================================
\*

---- MODULE TraceXCrypt_TETrace ----
EXTENDS TLC, TraceXCrypt

trace == 
    <<
    ([div |-> {},st |-> <<>>,viol |-> {},cnt |-> [failed |-> 0, faulted |-> 0, ok |-> 0, calls |-> 0, ant |-> [Shape |-> 0, FailClosed |-> 0, ShortSizes |-> 0, Wiped |-> 0, Result |-> 0, Grow |-> 0, FailClosedStaleErrno |-> 0, ResultNonzeroErrno |-> 0, UninitDependence |-> 0, AsIfAlone |-> 0, Handle |-> 0, RoundTrip |-> 0, Distinct |-> 0, FalseAcceptProbe |-> 0, Literal |-> 0, Released |-> 0, Balanced |-> 0, KdfParams |-> 0]],l |-> 1]),
    ([div |-> {},st |-> (0 :> [scr |-> <<"clean">>, out |-> <<"zero">>]),viol |-> {},cnt |-> [failed |-> 0, faulted |-> 0, ok |-> 0, calls |-> 0, ant |-> [Shape |-> 0, FailClosed |-> 0, ShortSizes |-> 0, Wiped |-> 0, Result |-> 0, Grow |-> 0, FailClosedStaleErrno |-> 0, ResultNonzeroErrno |-> 0, UninitDependence |-> 0, AsIfAlone |-> 0, Handle |-> 0, RoundTrip |-> 0, Distinct |-> 0, FalseAcceptProbe |-> 0, Literal |-> 0, Released |-> 0, Balanced |-> 0, KdfParams |-> 0]],l |-> 2])
    >>
----


=============================================================================

---- CONFIG TraceXCrypt_TTrace_1790499650 ----

INVARIANT
    _inv

CHECK_DEADLOCK
    \* CHECK_DEADLOCK off because of PROPERTY or INVARIANT above.
    FALSE

INIT
    _init

NEXT
    _next

CONSTANT
    _TETrace <- _trace

ALIAS
    _expression
=============================================================================
\* Generated on Sun Sep 27 09:00:51 UTC 2026