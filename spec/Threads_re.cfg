SPECIFICATION Spec
CONSTANT Thr = {1, 2, 3}
CONSTANT Calls = {"crypt_r", "crypt_rn", "crypt_ra", "crypt_gensalt_rn", "crypt_gensalt_ra", "crypt_checksalt", "crypt_preferred_method"}
CONSTANT NCalls = 2
INVARIANT NoRace AsIfAlone
CHECK_DEADLOCK FALSE
