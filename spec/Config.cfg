SPECIFICATION Spec
CONSTANT Sel = "all"
INVARIANT DefaultIsStrongestEnabled DisabledUnreachable DesPair EnabledUnchanged NoDefault
CHECK_DEADLOCK FALSE
