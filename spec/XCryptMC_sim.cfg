SPECIFICATION Spec
CONSTANT LogHist = TRUE
CONSTANT MCObj = {"o1", "o2"}
CONSTANT MCHnd = {"h1"}
CONSTANT MCBlk = {1, 2, 3}
CONSTANT MCTokenFirst = TRUE
CONSTANT MCFailureTokens = TRUE
CONSTANT MCReqs = {"okA", "okA2", "hashA", "okB", "badchar", "unknown", "star0", "star1", "methfail", "nullphrase", "nullsetting", "longphrase"}
INVARIANT Export
INVARIANT TypeOK FailClosed NoStale TokenShape ShortSizes WipedIffValidated ResultIsFunction GrowErasedFirst
INVARIANT OneOwner NoDangling SizeHonest HandleSound
CHECK_DEADLOCK FALSE
