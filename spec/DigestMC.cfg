SPECIFICATION Spec
CONSTANT B = 4
CONSTANT L = 1
CONSTANT MaxLen = 13
INVARIANT Refines BufBound Progress
CHECK_DEADLOCK FALSE
