---- MODULE RandomMC_TTrace_1790490990 ----
EXTENDS Sequences, TLCExt, Toolbox, Naturals, TLC, RandomMC

_expression ==
    LET RandomMC_TEExpression == INSTANCE RandomMC_TEExpression
    IN RandomMC_TEExpression!expression
----

_trace ==
    LET RandomMC_TETrace == INSTANCE RandomMC_TETrace
    IN RandomMC_TETrace!trace
----

_inv ==
    ~(
        TLCGet("level") = Len(_TETrace)
        /\
        cur = (<<>>)
        /\
        st = ([n |-> 16, pc |-> "idle", dead |-> {"R", "e", "r", "u", "E"}, last |-> <<"u", "S">>, ret |-> FALSE, err |-> 0, buf |-> <<"partial", "u">>, idx |-> 1, errw |-> FALSE, fds |-> 0])
        /\
        hist = (<<>>)
        /\
        ncalls = (2)
    )
----

_init ==
    /\ cur = _TETrace[1].cur
    /\ hist = _TETrace[1].hist
    /\ ncalls = _TETrace[1].ncalls
    /\ st = _TETrace[1].st
----

_next ==
    /\ \E i,j \in DOMAIN _TETrace:
        /\ \/ /\ j = i + 1
              /\ i = TLCGet("level")
        /\ cur  = _TETrace[i].cur
        /\ cur' = _TETrace[j].cur
        /\ hist  = _TETrace[i].hist
        /\ hist' = _TETrace[j].hist
        /\ ncalls  = _TETrace[i].ncalls
        /\ ncalls' = _TETrace[j].ncalls
        /\ st  = _TETrace[i].st
        /\ st' = _TETrace[j].st

\* Uncomment the ASSUME below to write the states of the error trace
\* to the given file in Json format. Note that you can pass any tuple
\* to `JsonSerialize`. For example, a sub-sequence of _TETrace.
    \* ASSUME
    \*     LET J == INSTANCE Json
    \*         IN J!JsonSerialize("RandomMC_TTrace_1790490990.json", _TETrace)

=============================================================================

 Note that you can extract this module `RandomMC_TEExpression`
  to a dedicated file to reuse `expression` (the module in the 
  dedicated `RandomMC_TEExpression.tla` file takes precedence 
  over the module `RandomMC_TEExpression` below).

---- MODULE RandomMC_TEExpression ----
EXTENDS Sequences, TLCExt, Toolbox, Naturals, TLC, RandomMC

expression == 
    [
        \* To hide variables of the `RandomMC` spec from the error trace,
        \* remove the variables below.  The trace will be written in the order
        \* of the fields of this record.
        cur |-> cur
        ,hist |-> hist
        ,ncalls |-> ncalls
        ,st |-> st
        
        \* Put additional constant-, state-, and action-level expressions here:
        \* ,_stateNumber |-> _TEPosition
        \* ,_curUnchanged |-> cur = cur'
        
        \* Format the `cur` variable as Json value.
        \* ,_curJson |->
        \*     LET J == INSTANCE Json
        \*     IN J!ToJson(cur)
        
        \* Lastly, you may build expressions over arbitrary sets of states by
        \* leveraging the _TETrace operator.  For example, this is how to
        \* count the number of times a spec variable changed up to the current
        \* state in the trace.
        \* ,_curModCount |->
        \*     LET F[s \in DOMAIN _TETrace] ==
        \*         IF s = 1 THEN 0
        \*         ELSE IF _TETrace[s].cur # _TETrace[s-1].cur
        \*             THEN 1 + F[s-1] ELSE F[s-1]
        \*     IN F[_TEPosition - 1]
    ]

=============================================================================



Parsing and semantic processing can take forever if the trace below is long.
 In this case, it is advised to uncomment the module below to deserialize the
 trace from a generated binary file.

\*
\*---- MODULE RandomMC_TETrace ----
\*EXTENDS IOUtils, TLC, RandomMC
\*
\*trace == IODeserialize("RandomMC_TTrace_1790490990.bin", TRUE)
\*
\*=============================================================================
\*

---- MODULE RandomMC_TETrace ----
EXTENDS TLC, RandomMC

trace == 
    <<
    ([cur |-> <<>>,st |-> [n |-> 0, pc |-> "idle", dead |-> {}, last |-> <<"none", "none">>, ret |-> TRUE, err |-> 0, buf |-> <<"untouched">>, idx |-> 0, errw |-> FALSE, fds |-> 0],hist |-> <<>>,ncalls |-> 0]),
    ([cur |-> <<>>,st |-> [n |-> 16, pc |-> "try", dead |-> {}, last |-> <<"none", "none">>, ret |-> TRUE, err |-> 0, buf |-> <<"zero">>, idx |-> 1, errw |-> FALSE, fds |-> 0],hist |-> <<>>,ncalls |-> 1]),
    ([cur |-> <<>>,st |-> [n |-> 16, pc |-> "try", dead |-> {"e"}, last |-> <<"e", "F">>, ret |-> TRUE, err |-> 38, buf |-> <<"zero">>, idx |-> 2, errw |-> TRUE, fds |-> 0],hist |-> <<>>,ncalls |-> 1]),
    ([cur |-> <<>>,st |-> [n |-> 16, pc |-> "try", dead |-> {"e", "r"}, last |-> <<"r", "S">>, ret |-> TRUE, err |-> 38, buf |-> <<"partial", "r">>, idx |-> 3, errw |-> TRUE, fds |-> 0],hist |-> <<>>,ncalls |-> 1]),
    ([cur |-> <<>>,st |-> [n |-> 16, pc |-> "try", dead |-> {"e", "r", "E"}, last |-> <<"E", "F">>, ret |-> TRUE, err |-> 38, buf |-> <<"partial", "r">>, idx |-> 4, errw |-> TRUE, fds |-> 0],hist |-> <<>>,ncalls |-> 1]),
    ([cur |-> <<>>,st |-> [n |-> 16, pc |-> "try", dead |-> {"R", "e", "r", "E"}, last |-> <<"R", "S">>, ret |-> TRUE, err |-> 38, buf |-> <<"partial", "R">>, idx |-> 5, errw |-> TRUE, fds |-> 0],hist |-> <<>>,ncalls |-> 1]),
    ([cur |-> <<>>,st |-> [n |-> 16, pc |-> "idle", dead |-> {"R", "e", "r", "E"}, last |-> <<"u", "K">>, ret |-> TRUE, err |-> 38, buf |-> <<"full", "u">>, idx |-> 5, errw |-> TRUE, fds |-> 0],hist |-> <<>>,ncalls |-> 1]),
    ([cur |-> <<>>,st |-> [n |-> 16, pc |-> "try", dead |-> {"R", "e", "r", "E"}, last |-> <<"none", "none">>, ret |-> TRUE, err |-> 0, buf |-> <<"zero">>, idx |-> 1, errw |-> FALSE, fds |-> 0],hist |-> <<>>,ncalls |-> 2]),
    ([cur |-> <<>>,st |-> [n |-> 16, pc |-> "idle", dead |-> {"R", "e", "r", "u", "E"}, last |-> <<"u", "S">>, ret |-> FALSE, err |-> 0, buf |-> <<"partial", "u">>, idx |-> 1, errw |-> FALSE, fds |-> 0],hist |-> <<>>,ncalls |-> 2])
    >>
----


=============================================================================

---- CONFIG RandomMC_TTrace_1790490990 ----
CONSTANTS
    Compiled <- MCAll
    MaxCalls = 2
    Lens = { 16 }
    LogHist = FALSE

INVARIANT
    _inv

CHECK_DEADLOCK
    \* CHECK_DEADLOCK off because of PROPERTY or INVARIANT above.
    FALSE

INIT
    _init

NEXT
    _next

CONSTANT
    _TETrace <- _trace

ALIAS
    _expression
=============================================================================
\* Generated on Sun Sep 27 06:36:31 UTC 2026