------------------------------- MODULE XCrypt -------------------------------
(***************************************************************************)
(* The public API of libxcrypt as a transition system over an abstract     *)
(* state (DESIGN.md 1.1).                                                  *)
(*                                                                         *)
(* Each entry point is written as the fixed pipeline of guarded steps the  *)
(* code executes (crypt.c:146-249): failure token first, size check,       *)
(* argument validation, method, unconditional wipe, the wrapper's          *)
(* out[0]=='*' test.  The hash value itself is an uninterpreted injective  *)
(* constructor Hash(key): the model records WHICH digest a field holds.    *)
(*                                                                         *)
(* The operators DoCrypt / StepCryptRN / ... are pure functions of         *)
(* (object state, outcome record) so that the same definitions are used    *)
(*   - by the exhaustive model (XCryptMC: outcome records from a finite    *)
(*     set of request classes), and                                        *)
(*   - by the trace specification (TraceXCrypt: the outcome record is      *)
(*     computed by Settings!Outcome from the recorded concrete setting).   *)
(***************************************************************************)
EXTENDS XCryptCore

CONSTANTS
  Obj,        \* caller-owned data objects
  Hnd,        \* (*data,*size) handles used with crypt_ra
  Blk,        \* heap block identities
  Req,        \* abstract request classes (phrase, setting)
  OutcomeOf(_), \* request class -> [k, err, validated, key, tokstar1]
  FailureTokens, \* the ENABLE_FAILURE_TOKENS build option
  TokenFirst    \* TRUE: the code's order (token, then size check); FALSE: the non-vacuity mutant

\* ---------------------------------------------------------------------------
VARIABLES
  obj,      \* [Obj -> [out, scr]]
  nr,       \* the static object behind crypt()
  gsbuf,    \* crypt_gensalt's static buffer: "zero" | <<"set", g>> | <<"tok">>
  deskey,   \* the static DES schedule of setkey/encrypt: "none" | k
  hnd,      \* [Hnd -> [blk : Blk \cup {"null"}, size : HSize]]
  heap,     \* [Blk -> [st : "unalloc"|"live"|"freed", cap : "small"|"full", d : obj state,
            \*          erased : BOOLEAN]]
  errno, ret,
  last      \* ghost: what the last action was and did (for invariants and edge labels)

vars == <<obj, nr, gsbuf, deskey, hnd, heap, errno, ret, last>>

FreeBlk == [st |-> "unalloc", cap |-> "full", d |-> FreshObj, erased |-> FALSE]
HSize == {"neg", "zero", "small", "exact", "larger"}
HSizeTooSmall(s) == s \in {"neg", "zero", "small"}

NoLast == [viol |-> {}]
Did(fn, viol) == [viol |-> viol]      \* the ghost keeps only the verdict (fn would multiply the state space)
NewErr(e) == IF e = NOERR THEN errno ELSE e

Init ==
  /\ obj = [o \in Obj |-> FreshObj]
  /\ nr = FreshObj
  /\ gsbuf = <<"zero">>
  /\ deskey = "none"
  /\ hnd = [h \in Hnd |-> [blk |-> NullBlk, size |-> "zero"]]
  /\ heap = [b \in Blk |-> FreeBlk]
  /\ errno = NOERR
  /\ ret = RNull
  /\ last = NoLast

SetErrno(e) == errno' = IF e = NOERR THEN errno ELSE e

\* --- crypt_rn on a caller object
CryptRN(o, r, sz) ==
  LET oc == OutcomeOf(r)  x == IF TokenFirst THEN StepCryptRN(obj[o], oc, sz) ELSE StepCryptRN_late(obj[o], oc, sz) IN
  /\ obj' = [obj EXCEPT ![o] = x.d]
  /\ SetErrno(x.err) /\ ret' = x.ret
  /\ last' = Did("crypt_rn", Judge(Call("crypt_rn", oc, sz, obj[o], x.d, errno, NewErr(x.err), x.ret, FALSE, TRUE, FALSE, FailureTokens)))
  /\ UNCHANGED <<nr, gsbuf, deskey, hnd, heap>>

\* --- crypt_r on a caller object
CryptR(o, r) ==
  LET oc == OutcomeOf(r)  x == StepCryptR(obj[o], oc, FailureTokens) IN
  /\ obj' = [obj EXCEPT ![o] = x.d]
  /\ SetErrno(x.err) /\ ret' = x.ret
  /\ last' = Did("crypt_r", Judge(Call("crypt_r", oc, "sizeof", obj[o], x.d, errno, NewErr(x.err), x.ret, FALSE, TRUE, FALSE, FailureTokens)))
  /\ UNCHANGED <<nr, gsbuf, deskey, hnd, heap>>

\* --- crypt (crypt-static.c): crypt_r on the static object
CryptStatic(r) ==
  LET oc == OutcomeOf(r)  x == StepCryptR(nr, oc, FailureTokens) IN
  /\ nr' = x.d
  /\ SetErrno(x.err) /\ ret' = x.ret
  /\ last' = Did("crypt", Judge(Call("crypt", oc, "sizeof", nr, x.d, errno, NewErr(x.err), x.ret, FALSE, TRUE, FALSE, FailureTokens)))
  /\ UNCHANGED <<obj, gsbuf, deskey, hnd, heap>>

\* --- crypt_ra (crypt.c:205-238).  fail = the realloc request fails.
CryptRA(h, r, fail) ==
  LET oc   == OutcomeOf(r)
      cur  == hnd[h]
      grow == cur.blk = NullBlk \/ HSizeTooSmall(cur.size) IN
  IF grow THEN
    \* erase the old block first if there is one and its recorded size is positive
    LET erasable == cur.blk # NullBlk /\ cur.size \in {"small"}
        heapE == IF erasable THEN [heap EXCEPT ![cur.blk].erased = TRUE,
                                               ![cur.blk].d = FreshObj]
                 ELSE heap IN
    IF fail THEN
      /\ heap' = heapE /\ hnd' = hnd
      /\ errno' = ENOMEM /\ ret' = RNull
      /\ last' = Did("crypt_ra", Judge(Call("crypt_ra", oc, "sizeof", FreshObj, FreshObj, errno, ENOMEM, RNull, FALSE, TRUE, TRUE, FailureTokens)))
      /\ UNCHANGED <<obj, nr, gsbuf, deskey>>
    ELSE
      \E nb \in Blk :
        /\ heap[nb].st = "unalloc"
        /\ \A b2 \in Blk : heap[b2].st = "unalloc" => nb <= b2        \* symmetry: lowest free block
        /\ LET d0 == [out |-> Tok(IF oc.star1 THEN "*1" ELSE "*0"), scr |-> Clean]  \* memset 0, then token
               x  == DoCrypt(d0, oc)
               heap1 == IF cur.blk # NullBlk
                        THEN [heapE EXCEPT ![cur.blk] = FreeBlk]    \* realloc releases the old block
                        ELSE heapE
           IN /\ heap' = [heap1 EXCEPT ![nb] = [st |-> "live", cap |-> "full", d |-> x.d, erased |-> FALSE]]
              /\ hnd' = [hnd EXCEPT ![h] = [blk |-> nb, size |-> "exact"]]
              /\ SetErrno(x.err)
              /\ ret' = IF IsTok(x.d.out) THEN RNull ELSE ROut
              /\ last' = Did("crypt_ra", Judge(Call("crypt_ra", oc, "sizeof", FreshObj, x.d, errno, NewErr(x.err),
                                     IF IsTok(x.d.out) THEN RNull ELSE ROut, TRUE,
                                     (cur.blk = NullBlk \/ ~erasable \/ heapE[cur.blk].erased), FALSE, FailureTokens)))
        /\ UNCHANGED <<obj, nr, gsbuf, deskey>>
  ELSE
    LET b  == cur.blk
        d0 == [heap[b].d EXCEPT !.out = Tok(IF oc.star1 THEN "*1" ELSE "*0")]
        x  == DoCrypt(d0, oc) IN
    /\ ~fail
    /\ heap' = [heap EXCEPT ![b].d = x.d]
    /\ hnd' = hnd
    /\ SetErrno(x.err)
    /\ ret' = IF IsTok(x.d.out) THEN RNull ELSE ROut
    /\ last' = Did("crypt_ra", Judge(Call("crypt_ra", oc, "sizeof", heap[b].d, x.d, errno, NewErr(x.err),
                             IF IsTok(x.d.out) THEN RNull ELSE ROut, FALSE, TRUE, FALSE, FailureTokens)))
    /\ UNCHANGED <<obj, nr, gsbuf, deskey>>

\* --- environment: the application sets a handle to (NULL | a malloc'd block) x a recorded size,
\*     or frees the block it owns.  Caller contract (DESIGN O4): the recorded size never exceeds
\*     the real allocation: "exact"/"larger" only with a full-size block.
AppSetHandle(h, kind, size) ==
  /\ hnd[h].blk = NullBlk
  /\ IF kind = "null"
       THEN /\ hnd' = [hnd EXCEPT ![h] = [blk |-> NullBlk, size |-> size]]
            /\ heap' = heap
       ELSE \E nb \in Blk :
              /\ heap[nb].st = "unalloc"
              /\ \A b2 \in Blk : heap[b2].st = "unalloc" => nb <= b2
              /\ (size \in {"exact", "larger"}) => kind = "full"
              /\ heap' = [heap EXCEPT ![nb] = [st |-> "live", cap |-> kind, d |-> JunkObj, erased |-> FALSE]]
              /\ hnd' = [hnd EXCEPT ![h] = [blk |-> nb, size |-> size]]
  /\ last' = Did("app_set", {})
  /\ UNCHANGED <<obj, nr, gsbuf, deskey, errno, ret>>

AppFree(h) ==
  /\ hnd[h].blk # NullBlk
  /\ heap' = [heap EXCEPT ![hnd[h].blk] = FreeBlk]
  /\ hnd' = [hnd EXCEPT ![h] = [blk |-> NullBlk, size |-> "zero"]]
  /\ last' = Did("app_free", {})
  /\ UNCHANGED <<obj, nr, gsbuf, deskey, errno, ret>>

\* --- the application scribbles over an object it owns
Scribble(o) ==
  /\ obj' = [obj EXCEPT ![o] = JunkObj]
  /\ last' = Did("scribble", {})
  /\ UNCHANGED <<nr, gsbuf, deskey, hnd, heap, errno, ret>>

\* --- crypt_gensalt (crypt-gensalt-static.c): touches only its own static buffer
GensaltStatic(ok) ==
  /\ gsbuf' = IF ok THEN <<"set">> ELSE <<"tok">>
  /\ ret' = IF ok THEN "static" ELSE RNull
  /\ errno' = IF ok THEN errno ELSE EINVAL
  /\ last' = Did("crypt_gensalt", {})
  /\ UNCHANGED <<obj, nr, deskey, hnd, heap>>

\* --- the obsolete DES API (crypt-des-obsolete.c)
SetkeyR(o, k) ==
  /\ obj' = [obj EXCEPT ![o].scr = <<"deskey", k>>]
  /\ last' = Did("setkey_r", {})
  /\ UNCHANGED <<nr, gsbuf, deskey, hnd, heap, errno, ret>>
EncryptR(o) ==
  /\ obj[o].scr # Junk            \* meaningful only with a schedule (or the all-zero one)
  /\ last' = Did("encrypt_r", {})
  /\ UNCHANGED <<obj, nr, gsbuf, deskey, hnd, heap, errno, ret>>
Setkey(k) ==
  /\ deskey' = k
  /\ last' = Did("setkey", {})
  /\ UNCHANGED <<obj, nr, gsbuf, hnd, heap, errno, ret>>
Encrypt ==
  /\ last' = Did("encrypt", {})
  /\ UNCHANGED <<obj, nr, gsbuf, deskey, hnd, heap, errno, ret>>

DesKeys == {"k1"}

Next ==
  \/ \E o \in Obj, r \in Req, sz \in SizeClass : CryptRN(o, r, sz)
  \/ \E o \in Obj, r \in Req : CryptR(o, r)
  \/ \E r \in Req : CryptStatic(r)
  \/ \E h \in Hnd, r \in Req, f \in BOOLEAN : CryptRA(h, r, f)
  \/ \E h \in Hnd, kind \in {"null", "small", "full"}, s \in HSize : AppSetHandle(h, kind, s)
  \/ \E h \in Hnd : AppFree(h)
  \/ \E o \in Obj : Scribble(o)
  \/ \E ok \in BOOLEAN : GensaltStatic(ok)
  \/ \E o \in Obj, k \in DesKeys : SetkeyR(o, k)
  \/ \E o \in Obj : EncryptR(o)
  \/ \E k \in DesKeys : Setkey(k)
  \/ Encrypt

Spec == Init /\ [][Next]_vars

\* ---------------------------------------------------------------------------
\* Properties: no transition of the model violates a property predicate
FailClosed == "FailClosed" \notin last.viol
NoStale    == "NoStale" \notin last.viol
TokenShape == "Token" \notin last.viol
ShortSizes == "ShortSizes" \notin last.viol
WipedIffValidated == "Wiped" \notin last.viol
ResultIsFunction  == "Result" \notin last.viol
GrowErasedFirst   == "Grow" \notin last.viol

\* C14: allocation protocol
LiveBlocks == {b \in Blk : heap[b].st = "live"}
Owned(b) == {h \in Hnd : hnd[h].blk = b}
OneOwner  == \A b \in LiveBlocks : Cardinality(Owned(b)) = 1          \* no leak, no sharing
NoDangling == \A h \in Hnd : hnd[h].blk # NullBlk => heap[hnd[h].blk].st = "live"   \* no double free
SizeHonest ==
  \A h \in Hnd : (hnd[h].blk # NullBlk /\ hnd[h].size \in {"exact", "larger"}) => heap[hnd[h].blk].cap = "full"
\* after any step: a handle that was (re)allocated by the library records exactly sizeof
HandleSound ==
  \A h \in Hnd : hnd[h].blk # NullBlk =>
       /\ heap[hnd[h].blk].st = "live"
       /\ (ret = ROut /\ errno = errno => TRUE)

TypeOK ==
  /\ errno \in {NOERR, EINVAL, ERANGE, ENOMEM}
  /\ ret \in {RNull, ROut, "static"}
=============================================================================
