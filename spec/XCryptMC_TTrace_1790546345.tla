---- MODULE XCryptMC_TTrace_1790546345 ----
EXTENDS Sequences, TLCExt, XCryptMC, Toolbox, Naturals, TLC

_expression ==
    LET XCryptMC_TEExpression == INSTANCE XCryptMC_TEExpression
    IN XCryptMC_TEExpression!expression
----

_trace ==
    LET XCryptMC_TETrace == INSTANCE XCryptMC_TETrace
    IN XCryptMC_TETrace!trace
----

_inv ==
    ~(
        TLCGet("level") = Len(_TETrace)
        /\
        ret = ("null")
        /\
        errno = (34)
        /\
        hist = (<<>>)
        /\
        nr = ([out |-> <<"zero">>, scr |-> <<"clean">>])
        /\
        last = ([viol |-> {"FailClosed", "Token"}])
        /\
        deskey = ("none")
        /\
        obj = ([o1 |-> [out |-> <<"zero">>, scr |-> <<"clean">>]])
        /\
        gsbuf = (<<"zero">>)
        /\
        heap = (<<>>)
        /\
        hnd = (<<>>)
    )
----

_init ==
    /\ errno = _TETrace[1].errno
    /\ heap = _TETrace[1].heap
    /\ hnd = _TETrace[1].hnd
    /\ nr = _TETrace[1].nr
    /\ ret = _TETrace[1].ret
    /\ hist = _TETrace[1].hist
    /\ last = _TETrace[1].last
    /\ obj = _TETrace[1].obj
    /\ gsbuf = _TETrace[1].gsbuf
    /\ deskey = _TETrace[1].deskey
----

_next ==
    /\ \E i,j \in DOMAIN _TETrace:
        /\ \/ /\ j = i + 1
              /\ i = TLCGet("level")
        /\ errno  = _TETrace[i].errno
        /\ errno' = _TETrace[j].errno
        /\ heap  = _TETrace[i].heap
        /\ heap' = _TETrace[j].heap
        /\ hnd  = _TETrace[i].hnd
        /\ hnd' = _TETrace[j].hnd
        /\ nr  = _TETrace[i].nr
        /\ nr' = _TETrace[j].nr
        /\ ret  = _TETrace[i].ret
        /\ ret' = _TETrace[j].ret
        /\ hist  = _TETrace[i].hist
        /\ hist' = _TETrace[j].hist
        /\ last  = _TETrace[i].last
        /\ last' = _TETrace[j].last
        /\ obj  = _TETrace[i].obj
        /\ obj' = _TETrace[j].obj
        /\ gsbuf  = _TETrace[i].gsbuf
        /\ gsbuf' = _TETrace[j].gsbuf
        /\ deskey  = _TETrace[i].deskey
        /\ deskey' = _TETrace[j].deskey

\* Uncomment the ASSUME below to write the states of the error trace
\* to the given file in Json format. Note that you can pass any tuple
\* to `JsonSerialize`. For example, a sub-sequence of _TETrace.
    \* ASSUME
    \*     LET J == INSTANCE Json
    \*         IN J!JsonSerialize("XCryptMC_TTrace_1790546345.json", _TETrace)

=============================================================================

 Note that you can extract this module `XCryptMC_TEExpression`
  to a dedicated file to reuse `expression` (the module in the 
  dedicated `XCryptMC_TEExpression.tla` file takes precedence 
  over the module `XCryptMC_TEExpression` below).

---- MODULE XCryptMC_TEExpression ----
EXTENDS Sequences, TLCExt, XCryptMC, Toolbox, Naturals, TLC

expression == 
    [
        \* To hide variables of the `XCryptMC` spec from the error trace,
        \* remove the variables below.  The trace will be written in the order
        \* of the fields of this record.
        errno |-> errno
        ,heap |-> heap
        ,hnd |-> hnd
        ,nr |-> nr
        ,ret |-> ret
        ,hist |-> hist
        ,last |-> last
        ,obj |-> obj
        ,gsbuf |-> gsbuf
        ,deskey |-> deskey
        
        \* Put additional constant-, state-, and action-level expressions here:
        \* ,_stateNumber |-> _TEPosition
        \* ,_errnoUnchanged |-> errno = errno'
        
        \* Format the `errno` variable as Json value.
        \* ,_errnoJson |->
        \*     LET J == INSTANCE Json
        \*     IN J!ToJson(errno)
        
        \* Lastly, you may build expressions over arbitrary sets of states by
        \* leveraging the _TETrace operator.  For example, this is how to
        \* count the number of times a spec variable changed up to the current
        \* state in the trace.
        \* ,_errnoModCount |->
        \*     LET F[s \in DOMAIN _TETrace] ==
        \*         IF s = 1 THEN 0
        \*         ELSE IF _TETrace[s].errno # _TETrace[s-1].errno
        \*             THEN 1 + F[s-1] ELSE F[s-1]
        \*     IN F[_TEPosition - 1]
    ]

=============================================================================



Parsing and semantic processing can take forever if the trace below is long.
 In this case, it is advised to uncomment the module below to deserialize the
 trace from a generated binary file.

\*
\*---- MODULE XCryptMC_TETrace ----
\*EXTENDS IOUtils, XCryptMC, TLC
\*
\*trace == IODeserialize("XCryptMC_TTrace_1790546345.bin", TRUE)
\*
\*=============================================================================
\*

---- MODULE XCryptMC_TETrace ----
EXTENDS XCryptMC, TLC

trace == 
    <<
    ([ret |-> "null",errno |-> 0,hist |-> <<>>,nr |-> [out |-> <<"zero">>, scr |-> <<"clean">>],last |-> [viol |-> {}],deskey |-> "none",obj |-> [o1 |-> [out |-> <<"zero">>, scr |-> <<"clean">>]],gsbuf |-> <<"zero">>,heap |-> <<>>,hnd |-> <<>>]),
    ([ret |-> "null",errno |-> 34,hist |-> <<>>,nr |-> [out |-> <<"zero">>, scr |-> <<"clean">>],last |-> [viol |-> {}],deskey |-> "none",obj |-> [o1 |-> [out |-> <<"zero">>, scr |-> <<"clean">>]],gsbuf |-> <<"zero">>,heap |-> <<>>,hnd |-> <<>>]),
    ([ret |-> "null",errno |-> 34,hist |-> <<>>,nr |-> [out |-> <<"zero">>, scr |-> <<"clean">>],last |-> [viol |-> {"FailClosed", "Token"}],deskey |-> "none",obj |-> [o1 |-> [out |-> <<"zero">>, scr |-> <<"clean">>]],gsbuf |-> <<"zero">>,heap |-> <<>>,hnd |-> <<>>])
    >>
----


=============================================================================

---- CONFIG XCryptMC_TTrace_1790546345 ----
CONSTANTS
    LogHist = FALSE
    MCObj = { "o1" }
    MCHnd = { }
    MCBlk = { }
    MCTokenFirst = FALSE
    MCFailureTokens = TRUE
    MCReqs = { "okA" , "okA2" , "hashA" , "okB" , "badchar" , "unknown" , "star0" , "star1" , "methfail" , "nullphrase" , "nullsetting" , "longphrase" }

INVARIANT
    _inv

CHECK_DEADLOCK
    \* CHECK_DEADLOCK off because of PROPERTY or INVARIANT above.
    FALSE

INIT
    _init

NEXT
    _next

CONSTANT
    _TETrace <- _trace

ALIAS
    _expression
=============================================================================
\* Generated on Sun Sep 27 21:59:06 UTC 2026