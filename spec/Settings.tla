------------------------------ MODULE Settings ------------------------------
(***************************************************************************)
(* The language of libxcrypt setting strings.                              *)
(*                                                                         *)
(* Strings are sequences of character codes (1..255); bytes are 0..255.    *)
(* For each of the 16 hashing methods this module states                   *)
(*   - Dispatch(E, s)    which method a setting selects under the hash     *)
(*                       selection E (crypt.c get_hashfn, table order)     *)
(*   - BadChars(s)       the generic passwd(5) filter (crypt.c)            *)
(*   - Parse(E, m, s, plen)  what the method does with the setting:        *)
(*                       [k |-> "ok" | "fail" | "either", err, canon]      *)
(*                       canon = the prefix+options+salt that the method   *)
(*                       copies to the front of the hash                   *)
(*   - Shape(m, h)       the grammar of a well-formed hash of method m     *)
(*   - DigestLen(m, ..)  the fixed length of the hash part                 *)
(*   - Checksalt(E, s)   crypt_checksalt                                   *)
(*   - Outcome(E, s, plen)   the whole of do_crypt's decision              *)
(* written from crypt(5), crypt(3) and the code.  Everything here is a     *)
(* constant-level operator: the module has no variables and is used by     *)
(* the API model (XCrypt), the grid generators and every trace spec.       *)
(***************************************************************************)
EXTENDS Naturals, Integers, Sequences, FiniteSets, TLC

Methods == {"yescrypt","gost_yescrypt","scrypt","bcrypt","bcrypt_y","bcrypt_a","bcrypt_x",
            "sha512crypt","sha256crypt","sha1crypt","sunmd5","md5crypt","nt",
            "bsdicrypt","bigcrypt","descrypt"}

\* hashes.conf, in file order (strength order); DEFAULT candidates and STRONG flags.
ConfOrder == <<"yescrypt","gost_yescrypt","scrypt","bcrypt","bcrypt_y","bcrypt_a","bcrypt_x",
               "sha512crypt","sha256crypt","sha1crypt","sunmd5","md5crypt","nt",
               "bsdicrypt","bigcrypt","descrypt">>
Strong      == {"yescrypt","gost_yescrypt","scrypt","bcrypt","bcrypt_y","bcrypt_a","sha512crypt"}
DefaultCand == {"yescrypt","bcrypt","sha512crypt"}
AllMethods  == Methods

EINVAL == 22
ERANGE == 34
ENOMEM == 12

\* ---- character classes -------------------------------------------------
Dollar == 36
IsDigit(c)  == c >= 48 /\ c <= 57
IsLower(c)  == c >= 97 /\ c <= 122
IsUpper(c)  == c >= 65 /\ c <= 90
\* the crypt base-64 alphabet "./0-9A-Za-z" (ascii64 / itoa64 / b64t / BF_itoa64 share the set)
IsB64(c)    == IsDigit(c) \/ IsLower(c) \/ IsUpper(c) \/ c = 46 \/ c = 47
IsHexLower(c) == IsDigit(c) \/ (c >= 97 /\ c <= 102)
Forbidden   == {33, 42, 58, 59, 92}            \* ! * : ; \
IsBadChar(c) == c <= 32 \/ c >= 127 \/ c \in Forbidden
BadChars(s) == \E i \in 1..Len(s) : IsBadChar(s[i])
PasswdSafe(s) == ~BadChars(s)

\* value of a base-64 character in the order "./0-9A-Za-z" (ascii_to_bin, atoi64)
B64Val(c) == IF c = 46 THEN 0 ELSE IF c = 47 THEN 1
             ELSE IF IsDigit(c) THEN c - 48 + 2
             ELSE IF IsUpper(c) THEN c - 65 + 12
             ELSE c - 97 + 38
B64Chr(v) == IF v = 0 THEN 46 ELSE IF v = 1 THEN 47
             ELSE IF v < 12 THEN 48 + v - 2
             ELSE IF v < 38 THEN 65 + v - 12
             ELSE 97 + v - 38
\* bcrypt's own order "./A-Za-z0-9"
BFVal(c) == IF c = 46 THEN 0 ELSE IF c = 47 THEN 1
            ELSE IF IsUpper(c) THEN c - 65 + 2
            ELSE IF IsLower(c) THEN c - 97 + 28
            ELSE c - 48 + 54
BFChr(v) == IF v = 0 THEN 46 ELSE IF v = 1 THEN 47
            ELSE IF v < 28 THEN 65 + v - 2
            ELSE IF v < 54 THEN 97 + v - 28
            ELSE 48 + v - 54

\* ---- sequence helpers --------------------------------------------------
Min(a, b) == IF a < b THEN a ELSE b
Max(a, b) == IF a > b THEN a ELSE b
Take(s, n) == SubSeq(s, 1, Min(n, Len(s)))
Drop(s, n) == SubSeq(s, n + 1, Len(s))
At(s, i)   == IF i >= 1 /\ i <= Len(s) THEN s[i] ELSE 0        \* C string view: NUL past the end
StartsWith(s, p) == Len(s) >= Len(p) /\ SubSeq(s, 1, Len(p)) = p
\* index (1-based) of the first position >= from whose character satisfies Stop, or Len(s)+1
FirstFrom(s, from, Stop(_)) ==
  LET I == {i \in from..Len(s) : Stop(s[i])} IN
  IF I = {} THEN Len(s) + 1 ELSE CHOOSE i \in I : \A j \in I : i <= j
\* last index of character c in s at or after from, or 0
LastIndexOf(s, c, from) ==
  LET I == {i \in from..Len(s) : s[i] = c} IN IF I = {} THEN 0 ELSE CHOOSE i \in I : \A j \in I : j <= i
\* number of leading digits from position from
DigitRunEnd(s, from) == FirstFrom(s, from, LAMBDA c : ~IsDigit(c))   \* first non-digit index

\* decimal digit strings, compared without leaving TLC's 32-bit integers
StripZeros(d) == LET k == FirstFrom(d, 1, LAMBDA c : c # 48) IN
                 IF k > Len(d) THEN <<48>> ELSE SubSeq(d, k, Len(d))
RECURSIVE LexLess(_, _, _)
LexLess(a, b, i) == IF i > Len(a) THEN FALSE
                    ELSE IF a[i] # b[i] THEN a[i] < b[i] ELSE LexLess(a, b, i + 1)
DecLess(a0, b0) == LET a == StripZeros(a0)  b == StripZeros(b0) IN
                   IF Len(a) # Len(b) THEN Len(a) < Len(b) ELSE LexLess(a, b, 1)
DecLeq(a, b) == ~DecLess(b, a)
RECURSIVE DecVal(_)
DecVal(d) == IF d = <<>> THEN 0 ELSE 10 * DecVal(SubSeq(d, 1, Len(d) - 1)) + (d[Len(d)] - 48)
RECURSIVE NatToDec(_)
NatToDec(n) == IF n < 10 THEN <<48 + n>> ELSE NatToDec(n \div 10) \o <<48 + (n % 10)>>

\* ---- literal strings ---------------------------------------------------
S_sha1    == <<36,115,104,97,49>>          \* $sha1
S_sha1d   == <<36,115,104,97,49,36>>       \* $sha1$
S_2a      == <<36,50,97,36>>               \* $2a$
S_2b      == <<36,50,98,36>>               \* $2b$
S_2x      == <<36,50,120,36>>              \* $2x$
S_2y      == <<36,50,121,36>>              \* $2y$
S_gy      == <<36,103,121,36>>             \* $gy$
S_md5     == <<36,109,100,53>>             \* $md5
S_1       == <<36,49,36>>                  \* $1$
S_3       == <<36,51,36>>                  \* $3$
S_5       == <<36,53,36>>                  \* $5$
S_6       == <<36,54,36>>                  \* $6$
S_7       == <<36,55,36>>                  \* $7$
S_y       == <<36,121,36>>                 \* $y$
S_us      == <<95>>                        \* _
S_rounds  == <<114,111,117,110,100,115,61>> \* rounds=
S_1000    == <<49,48,48,48>>
S_999999999 == <<57,57,57,57,57,57,57,57,57>>
S_u32max  == <<52,50,57,52,57,54,55,50,57,53>>   \* 4294967295

PrefixOf == [m \in Methods |->
  CASE m = "yescrypt" -> S_y [] m = "gost_yescrypt" -> S_gy [] m = "scrypt" -> S_7
    [] m = "bcrypt" -> S_2b [] m = "bcrypt_y" -> S_2y [] m = "bcrypt_a" -> S_2a [] m = "bcrypt_x" -> S_2x
    [] m = "sha512crypt" -> S_6 [] m = "sha256crypt" -> S_5 [] m = "sha1crypt" -> S_sha1
    [] m = "sunmd5" -> S_md5 [] m = "md5crypt" -> S_1 [] m = "nt" -> S_3
    [] m = "bsdicrypt" -> S_us [] m = "bigcrypt" -> <<>> [] m = "descrypt" -> <<>>]

\* ---- Dispatch: crypt.c get_hashfn -------------------------------------
\* The generated table lists non-empty prefixes first (none is a prefix of another), then the
\* empty-prefix entries bigcrypt, descrypt in that order.
Tagged == Methods \ {"bigcrypt", "descrypt"}
Dispatch(E, s) ==
  LET T == {m \in Tagged \cap E : StartsWith(s, PrefixOf[m])} IN
  IF T # {} THEN CHOOSE m \in T : TRUE
  ELSE IF (E \cap {"bigcrypt", "descrypt"}) # {}
          /\ (s = <<>> \/ (IsB64(At(s, 1)) /\ IsB64(At(s, 2))))
       THEN (IF "bigcrypt" \in E THEN "bigcrypt" ELSE "descrypt")
  ELSE "none"

\* ---- parse results -----------------------------------------------------
Fail(e)      == [k |-> "fail", err |-> e, canon |-> <<>>]
Ok(c)        == [k |-> "ok", err |-> 0, canon |-> c]
Either(c)    == [k |-> "either", err |-> EINVAL, canon |-> c]   \* model does not decide; if it fails, EINVAL

\* descrypt (crypt-des.c:187-215): two salt characters, re-encoded canonically (identity on the alphabet)
ParseDes(s) ==
  IF ~IsB64(At(s, 1)) \/ ~IsB64(At(s, 2)) THEN Fail(EINVAL) ELSE Ok(Take(s, 2))

\* bigcrypt (crypt-des.c:237-246): long phrase + short setting means descrypt (or EINVAL without it)
ParseBig(E, s, plen) ==
  IF plen > 8 /\ Len(s) <= 13
    THEN (IF "descrypt" \in E THEN ParseDes(s) ELSE Fail(EINVAL))
    ELSE ParseDes(s)

\* bsdicrypt (crypt-des.c:330-365): '_' + 4 count chars + 4 salt chars, the rest ignored
ParseBsdi(s) ==
  IF At(s, 1) # 95 \/ Len(s) < 9 THEN Fail(EINVAL)
  ELSE IF \E i \in 2..9 : ~IsB64(s[i]) THEN Fail(EINVAL)
  ELSE Ok(Take(s, 9))

\* the salt span shared by md5crypt/sha256crypt/sha512crypt: up to '$' or end (':' and newline are
\* excluded by BadChars before the method runs, but the method checks them again)
SaltSpan(rest, maxlen) ==
  LET z == FirstFrom(rest, 1, LAMBDA c : c \in {36, 58, 10}) IN
  IF z <= Len(rest) /\ rest[z] # 36 THEN [ok |-> FALSE, salt |-> <<>>]
  ELSE [ok |-> TRUE, salt |-> Take(rest, Min(z - 1, maxlen))]

ParseMd5(s) ==
  LET rest == IF StartsWith(s, S_1) THEN Drop(s, 3) ELSE s
      sp   == SaltSpan(rest, 8) IN
  IF ~sp.ok THEN Fail(EINVAL) ELSE Ok(S_1 \o sp.salt)

\* sha256crypt / sha512crypt (crypt-sha256.c, crypt-sha512.c): optional rounds=N$ with
\* 1000 <= N <= 999999999, no leading zero, then up to 16 salt characters
ParseSha2(pre, s) ==
  LET rest == IF StartsWith(s, pre) THEN Drop(s, 3) ELSE s IN
  IF StartsWith(rest, S_rounds) THEN
    LET n == Drop(rest, 7)
        e == DigitRunEnd(n, 1)          \* index of first non-digit
        num == SubSeq(n, 1, e - 1) IN
    IF ~(At(n, 1) >= 49 /\ At(n, 1) <= 57) THEN Fail(EINVAL)
    ELSE IF At(n, e) # 36 THEN Fail(EINVAL)
    ELSE IF DecLess(num, S_1000) \/ DecLess(S_999999999, num) THEN Fail(EINVAL)
    ELSE LET sp == SaltSpan(Drop(n, e), 16) IN
         IF ~sp.ok THEN Fail(EINVAL)
         ELSE [k |-> "ok", err |-> 0, canon |-> pre \o S_rounds \o num \o <<36>> \o sp.salt, rounds |-> num]
  ELSE LET sp == SaltSpan(rest, 16) IN
       IF ~sp.ok THEN Fail(EINVAL) ELSE Ok(pre \o sp.salt)

\* sunmd5 (crypt-sunmd5.c:166-225)
ParseSunmd5(s) ==
  IF ~StartsWith(s, S_md5) \/ At(s, 5) \notin {36, 44} THEN Fail(EINVAL)
  ELSE
    LET p0 == 6 IN                                   \* index of first char after "$md5$" / "$md5,"
    LET AfterRounds ==
          IF StartsWith(Drop(s, p0 - 1), S_rounds) THEN
            LET q == p0 + 7
                e == DigitRunEnd(s, q)
                num == SubSeq(s, q, e - 1) IN
            IF ~(At(s, q) >= 49 /\ At(s, q) <= 57) THEN 0
            ELSE IF DecLess(S_u32max, num) THEN 0
            ELSE IF At(s, e) # 36 THEN 0
            ELSE e + 1
          ELSE p0
    IN IF AfterRounds = 0 THEN Fail(EINVAL)
       ELSE
         LET z == FirstFrom(s, AfterRounds, LAMBDA c : ~IsB64(c)) IN   \* strspn over itoa64
         IF z <= Len(s) /\ s[z] # 36 THEN Fail(EINVAL)
         ELSE LET p == IF At(s, z) = 36 /\ (At(s, z + 1) = 36 \/ z + 1 > Len(s)) THEN z + 1 ELSE z
                  saltlen == p - 1 IN
              IF 384 < saltlen + 22 + 2 THEN Fail(ERANGE)
              ELSE [k |-> "ok", err |-> 0, canon |-> Take(s, saltlen),
                    \* additional rounds (decimal digits; <<48>> when the setting has no rounds= field)
                    arounds |-> IF AfterRounds = p0 THEN <<48>> ELSE SubSeq(s, p0 + 7, AfterRounds - 2)]

\* sha1crypt (crypt-pbkdf1-sha1.c:120-170).  strtoul: optional sign, digits; no digits => 0.
\* The iteration count is re-printed in canonical decimal.  Only small counts are modelled
\* exactly (the generators stay inside a compute budget); others are "either".
ParseSha1(s) ==
  IF ~StartsWith(s, S_sha1d) THEN Fail(EINVAL)
  ELSE
    LET q0 == 7
        sign == At(s, q0) \in {43, 45}
        q == IF sign THEN q0 + 1 ELSE q0
        e == DigitRunEnd(s, q)
        num == SubSeq(s, q, e - 1)
        nodigits == (e = q)
        dollar == IF nodigits THEN q0 ELSE e      \* with no digits strtoul consumes nothing
    IN IF At(s, dollar) # 36 THEN Fail(EINVAL)
       ELSE
         LET t == dollar + 1
             z == FirstFrom(s, t, LAMBDA c : ~IsB64(c))
             salt == SubSeq(s, t, z - 1) IN
         IF z = t \/ (z <= Len(s) /\ s[z] # 36) THEN Fail(EINVAL)
         ELSE IF Len(salt) > 64 THEN Fail(EINVAL)                  \* crypt(5): 1..64 (defect F1 repaired)
         ELSE IF At(s, q0) = 45 /\ ~nodigits /\ StripZeros(num) # <<48>> THEN Either(<<>>)   \* negated: huge
         ELSE IF Len(StripZeros(num)) > 9 THEN Either(<<>>)
         ELSE LET itc == IF nodigits THEN <<48>> ELSE StripZeros(num) IN
              [k |-> "ok", err |-> 0, canon |-> S_sha1d \o itc \o <<36>> \o salt, iters |-> itc]

ParseNt(s) == IF StartsWith(s, S_3) THEN Ok(S_3) ELSE Fail(EINVAL)

\* bcrypt (crypt-bcrypt.c:726-747, 836-846)
BcryptSubs == {97, 98, 120, 121}   \* a b x y
ParseBcrypt(s) ==
  IF At(s, 1) # 36 \/ At(s, 2) # 50 \/ At(s, 3) \notin BcryptSubs \/ At(s, 4) # 36
     \/ ~(At(s, 5) >= 48 /\ At(s, 5) <= 51) \/ ~IsDigit(At(s, 6))
     \/ (At(s, 5) = 51 /\ At(s, 6) > 49) \/ At(s, 7) # 36 THEN Fail(EINVAL)
  ELSE LET cost == (s[5] - 48) * 10 + (s[6] - 48) IN
       IF cost < 4 THEN Fail(EINVAL)
       ELSE IF \E i \in 8..29 : ~IsB64(At(s, i)) THEN Fail(EINVAL)
       ELSE [k |-> "ok", err |-> 0,
             canon |-> Take(s, 28) \o <<BFChr((BFVal(s[29]) \div 16) * 16)>>, cost |-> cost]

\* yescrypt's variable-length numerals (alg-yescrypt-common.c decode64_uint32)
\* returns [ok, val, next]; values that overflow TLC integers are reported as big
Dec64Var(s, i, min) ==
  LET c == IF IsB64(At(s, i)) THEN B64Val(At(s, i)) ELSE 64 IN
  IF c > 63 THEN [ok |-> FALSE, val |-> 0, next |-> i, big |-> FALSE]
  ELSE LET chars == IF c <= 47 THEN 1 ELSE IF c <= 55 THEN 2 ELSE IF c <= 59 THEN 3
                    ELSE IF c <= 61 THEN 4 ELSE IF c = 62 THEN 5 ELSE 6 IN
       IF \E j \in 1..(chars - 1) : ~IsB64(At(s, i + j))
         THEN [ok |-> FALSE, val |-> 0, next |-> i, big |-> FALSE]
       ELSE IF chars = 1 THEN [ok |-> TRUE, val |-> min + c, next |-> i + 1, big |-> FALSE]
       ELSE IF chars = 2 THEN [ok |-> TRUE, val |-> min + 48 + (c - 48) * 64 + B64Val(s[i + 1]),
                               next |-> i + 2, big |-> FALSE]
       ELSE [ok |-> TRUE, val |-> 0, next |-> i + chars, big |-> TRUE]

\* the salt string of a $y$/$gy$ setting is crypt-base64 (LSB-first groups); it must decode
\* completely into at most 64 bytes: every char in the alphabet, trailing partial group with
\* at least 2 chars, and non-final bits of a partial group may be anything (alg-yescrypt-common.c decode64)
YSaltDecodes(salt) ==
  /\ \A i \in 1..Len(salt) : IsB64(salt[i])
  /\ (Len(salt) % 4) # 1
  /\ (Len(salt) \div 4) * 3 + (IF (Len(salt) % 4) = 0 THEN 0 ELSE (Len(salt) % 4) - 1) <= 64
  \* the bits of a trailing partial group that do not fill a byte must be zero (canonical encoding)
  /\ ((Len(salt) % 4) = 2 => B64Val(salt[Len(salt)]) < 4)
  /\ ((Len(salt) % 4) = 3 => B64Val(salt[Len(salt)]) < 16)

\* parameters of a $y$-style setting starting at index i (after the 3-char tag)
\* returns [ok, known, saltstart]: known = the KDF is certain to accept the parameters
YParams(s, i) ==
  LET fl == Dec64Var(s, i, 0) IN
  IF ~fl.ok \/ fl.big THEN [ok |-> FALSE, known |-> FALSE, saltstart |-> 0]
  ELSE IF fl.val > 2 + 255 THEN [ok |-> FALSE, known |-> FALSE, saltstart |-> 0]   \* flavor range
  ELSE LET nl == Dec64Var(s, fl.next, 1) IN
  \* (N_log2 up to 63 decodes, but N > UINT32_MAX is refused by yescrypt_kdf before any allocation)
  IF ~nl.ok \/ nl.big \/ nl.val > 31 THEN [ok |-> FALSE, known |-> FALSE, saltstart |-> 0]
  ELSE LET r == Dec64Var(s, nl.next, 1) IN
  IF ~r.ok THEN [ok |-> FALSE, known |-> FALSE, saltstart |-> 0]
  ELSE IF At(s, r.next) = 36
         THEN [ok |-> TRUE,
               known |-> (fl.val = 47 /\ ~r.big /\ r.val <= 64 /\ nl.val >= 3 /\ nl.val <= 20),
               saltstart |-> r.next + 1]
         ELSE \* optional group present: syntax only, acceptance left to the KDF
              LET have == Dec64Var(s, r.next, 1) IN
              IF ~have.ok THEN [ok |-> FALSE, known |-> FALSE, saltstart |-> 0]
              ELSE [ok |-> TRUE, known |-> FALSE, saltstart |-> 0]   \* saltstart 0: not located by the model

\* crypt_yescrypt_rn's size test: the setting may be a complete hash, whose hash part ('$' + 43 characters at the end)
\* is not echoed and does not count (defect F8 repaired: a result longer than 339 characters is accepted back)
EchoLen(s) == LET d == LastIndexOf(s, 36, 1) IN IF d > 0 /\ Len(s) - d = 43 THEN d - 1 ELSE Len(s)
ParseYescrypt(s, tagLen) ==
  \* ($gy$ has its own copy of the test, on the whole length: its salts are at most 86 characters, so it is never reached)
  IF (IF tagLen = 3 THEN EchoLen(s) ELSE Len(s)) > 339 THEN Fail(ERANGE)     \* 384 < echoed part + 1 + 43 + 1
  ELSE LET yp == YParams(s, tagLen + 1) IN
  IF ~yp.ok THEN Fail(EINVAL)
  ELSE IF yp.saltstart = 0 THEN Either(<<>>)
  ELSE LET lastd == LastIndexOf(s, 36, yp.saltstart)
           saltend == IF lastd = 0 THEN Len(s) ELSE lastd - 1
           salt == SubSeq(s, yp.saltstart, saltend) IN
       IF ~YSaltDecodes(salt) THEN Fail(EINVAL)
       ELSE IF yp.known THEN Ok(Take(s, saltend)) ELSE Either(Take(s, saltend))

\* scrypt $7$ (crypt-scrypt.c verify_salt + alg-yescrypt-common.c): N_log2 char, r and p as
\* 5 chars each, then the salt up to the last '$'
ParseScrypt(s) ==
  IF EchoLen(s) > 339 THEN Fail(ERANGE)
  ELSE IF Len(s) < 14 THEN Fail(EINVAL)                      \* "$7$" + N + 5 + 5
  ELSE IF \E i \in 4..14 : ~IsB64(s[i]) THEN Fail(EINVAL)
  \* N = 2^N_log2 with N_log2 the value of the 4th character: 0 is refused by the decoder, and yescrypt_kdf
  \* refuses N > UINT32_MAX before it allocates anything (alg-yescrypt-opt.c: out_EINVAL)
  ELSE IF B64Val(s[4]) = 0 \/ B64Val(s[4]) >= 32 THEN Fail(EINVAL)
  ELSE LET lastd == LastIndexOf(s, 36, 15)
           saltend == IF lastd = 0 THEN Len(s) ELSE lastd - 1 IN
       \* verify_salt: characters of the salt alphabet or '$'; anything may follow a '$'
       LET z == FirstFrom(s, 15, LAMBDA c : ~(IsB64(c) \/ c = 36)) IN
       IF z <= Len(s) /\ s[z - 1] # 36 THEN Fail(EINVAL)
       ELSE Either(Take(s, saltend))

Parse(E, m, s, plen) ==
  CASE m = "descrypt"      -> ParseDes(s)
    [] m = "bigcrypt"      -> ParseBig(E, s, plen)
    [] m = "bsdicrypt"     -> ParseBsdi(s)
    [] m = "md5crypt"      -> ParseMd5(s)
    [] m = "sha256crypt"   -> ParseSha2(S_5, s)
    [] m = "sha512crypt"   -> ParseSha2(S_6, s)
    [] m = "sunmd5"        -> ParseSunmd5(s)
    [] m = "sha1crypt"     -> ParseSha1(s)
    [] m = "nt"            -> ParseNt(s)
    [] m \in {"bcrypt","bcrypt_a","bcrypt_x","bcrypt_y"} -> ParseBcrypt(s)
    [] m = "yescrypt"      -> ParseYescrypt(s, 3)
    [] m = "gost_yescrypt" -> ParseYescrypt(s, 4)
    [] m = "scrypt"        -> ParseScrypt(s)

\* ---- the decision of do_crypt (crypt.c:146-186) for non-NULL arguments ---
\* plen = strlen(phrase).  Result: [k, err, m, canon]
Outcome(E, s, plen) ==
  IF plen >= 512 THEN [k |-> "fail", err |-> ERANGE, m |-> "none", canon |-> <<>>, validated |-> FALSE]
  ELSE IF BadChars(s) THEN [k |-> "fail", err |-> EINVAL, m |-> "none", canon |-> <<>>, validated |-> FALSE]
  ELSE LET m == Dispatch(E, s) IN
       IF m = "none" THEN [k |-> "fail", err |-> EINVAL, m |-> "none", canon |-> <<>>, validated |-> FALSE]
       ELSE LET r == Parse(E, m, s, plen) IN
            [k |-> r.k, err |-> r.err, m |-> m, canon |-> r.canon, validated |-> TRUE]

\* ---- the method that actually computes the hash, and the digest length ---
\* bigcrypt forwards to descrypt for long phrase + short setting
DigestLen(m, plen, slen) ==
  CASE m = "descrypt" -> 11
    [] m = "bigcrypt" -> IF plen > 8 /\ slen <= 13 THEN 11
                         ELSE 11 * Max(1, Min(16, (plen + 7) \div 8))
    [] m = "bsdicrypt" -> 11
    [] m = "md5crypt" -> 22 [] m = "sunmd5" -> 22
    [] m = "sha256crypt" -> 43 [] m = "sha512crypt" -> 86
    [] m = "sha1crypt" -> 28 [] m = "nt" -> 32
    [] m \in {"bcrypt","bcrypt_a","bcrypt_x","bcrypt_y"} -> 31
    [] m \in {"yescrypt","gost_yescrypt","scrypt"} -> 43


\* ---- the significant projection of a passphrase (crypt(5)) ---------------
\* p = sequence of byte values 1..255.  The result is what the method's hash depends on;
\* two phrases with different keys must never produce the same digest (C03).
Mask7(p) == [i \in 1..Len(p) |-> p[i] % 128]
PadTo(p, n) == p \o [i \in 1..(n - Len(p)) |-> 0]
CeilDiv8(n) == (n + 7) \div 8
\* the method that really runs (bigcrypt forwards long phrase + short setting to descrypt)
Effective(m, plen, slen) == IF m = "bigcrypt" /\ plen > 8 /\ slen <= 13 THEN "descrypt" ELSE m
RECURSIVE Cyclic(_, _, _)
Cyclic(q, i, n) == IF n = 0 THEN <<>> ELSE <<q[((i - 1) % Len(q)) + 1]>> \o Cyclic(q, i + 1, n - 1)
PhraseKey(m0, p, slen) ==
  LET m == Effective(m0, Len(p), slen) IN
  CASE m = "descrypt" -> <<"des">> \o PadTo(Mask7(Take(p, 8)), 8)
    [] m = "bigcrypt" -> LET q == Take(p, 128)  segs == Max(1, Min(16, CeilDiv8(Len(p)))) IN
                         \* one segment is exactly the traditional hash (crypt(5): identical for <= 8 characters)
                         IF segs = 1 THEN <<"des">> \o PadTo(Mask7(q), 8)
                         ELSE <<"big", segs>> \o PadTo(Mask7(q), 8 * segs)
    [] m = "bsdicrypt" -> LET blocks == Max(1, CeilDiv8(Len(p))) IN <<"bsdi", blocks>> \o PadTo(Mask7(p), 8 * blocks)
    [] m \in {"bcrypt", "bcrypt_a", "bcrypt_x", "bcrypt_y"} -> <<"bf">> \o Cyclic(p \o <<0>>, 1, 72)
    [] OTHER -> <<"all">> \o p
\* the legacy bcrypt variants have documented sign-extension quirks for 8-bit bytes: no claim there
QuirkFree(m, p) == ~(m \in {"bcrypt_x", "bcrypt_a"} /\ \E i \in 1..Len(p) : p[i] >= 128)
\* the digest part of a hash of method m
DigestTail(m, h, plen, slen) == LET n == DigestLen(m, plen, slen) IN IF Len(h) < n THEN h ELSE SubSeq(h, Len(h) - n + 1, Len(h))

\* separator between canon and digest ("$" for the MCF methods, "$" doubled for NT, nothing for DES/bcrypt)
SepOf(m) == CASE m \in {"descrypt","bigcrypt","bsdicrypt","bcrypt","bcrypt_a","bcrypt_x","bcrypt_y"} -> <<>>
              [] OTHER -> <<36>>

\* ---- Shape: a well-formed hash of method m (crypt(5)) ------------------
AllB64(s)  == \A i \in 1..Len(s) : IsB64(s[i])
AllHex(s)  == \A i \in 1..Len(s) : IsHexLower(s[i])
TailIs(h, n, P(_)) == Len(h) >= n /\ P(SubSeq(h, Len(h) - n + 1, Len(h)))
\* h ends with '$' + n digest characters
DollarTail(h, n) == Len(h) >= n + 1 /\ h[Len(h) - n] = 36 /\ TailIs(h, n, AllB64)

Shape(m, h) ==
  /\ Len(h) < 384 /\ Len(h) > 0
  /\ PasswdSafe(h)
  /\ h[1] # 42
  /\ StartsWith(h, PrefixOf[m])
  /\ CASE m = "descrypt" -> Len(h) = 13 /\ AllB64(h)
       [] m = "bigcrypt" -> Len(h) >= 13 /\ ((Len(h) - 2) % 11) = 0 /\ Len(h) <= 2 + 16 * 11 /\ AllB64(h)
       [] m = "bsdicrypt" -> Len(h) = 20 /\ AllB64(Drop(h, 1))
       [] m \in {"bcrypt","bcrypt_a","bcrypt_x","bcrypt_y"} ->
            /\ Len(h) = 60 /\ IsDigit(h[5]) /\ IsDigit(h[6]) /\ h[7] = 36 /\ AllB64(Drop(h, 7))
       [] m = "md5crypt" -> DollarTail(h, 22) /\ Len(h) <= 3 + 8 + 1 + 22
       [] m = "sunmd5" -> DollarTail(h, 22)
       [] m = "sha256crypt" -> DollarTail(h, 43) /\ Len(h) <= 3 + 17 + 16 + 1 + 43
       [] m = "sha512crypt" -> DollarTail(h, 86) /\ Len(h) <= 3 + 17 + 16 + 1 + 86
       [] m = "sha1crypt" -> DollarTail(h, 28) /\ StartsWith(h, S_sha1d)
       [] m = "nt" -> Len(h) = 36 /\ h[4] = 36 /\ AllHex(Drop(h, 4))
       [] m \in {"yescrypt","gost_yescrypt","scrypt"} -> DollarTail(h, 43)

\* ---- crypt_checksalt (crypt.c:378-407) ---------------------------------
SALT_OK == 0
SALT_INVALID == 1
SALT_METHOD_DISABLED == 2
SALT_METHOD_LEGACY == 3
SALT_TOO_CHEAP == 4
\* (a null pointer is SALT_INVALID; callers handle it, sequences only here)
Checksalt(E, s) ==
  IF s = <<>> \/ BadChars(s) THEN SALT_INVALID
  ELSE LET m == Dispatch(E, s) IN
       IF m = "none" THEN SALT_INVALID
       ELSE IF m \in Strong THEN SALT_OK ELSE SALT_METHOD_LEGACY

\* ---- default method (hashes.conf order) --------------------------------
DefaultMethod(E) ==
  LET I == {i \in 1..Len(ConfOrder) : ConfOrder[i] \in E /\ ConfOrder[i] \in DefaultCand} IN
  IF I = {} THEN "none" ELSE ConfOrder[CHOOSE i \in I : \A j \in I : i <= j]

\* ---- failure token (util-make-failure-token.c) --------------------------
T_star0 == <<42, 48>>
T_star1 == <<42, 49>>
\* what make_failure_token writes for a given setting and size; "nothing" for size <= 0
Token(s, size) ==
  IF size >= 3 THEN (IF At(s, 1) = 42 /\ At(s, 2) = 48 THEN T_star1 ELSE T_star0)
  ELSE IF size = 2 THEN <<42>>
  ELSE IF size = 1 THEN <<>>
  ELSE <<0>>       \* nothing written
=============================================================================
