---------------------------- MODULE TraceRandom ----------------------------
(***************************************************************************)
(* Trace specification for crypt_gensalt* calls with rbytes == NULL made   *)
(* against the build whose get_random_bytes has no arc4random_buf and      *)
(* whose operating-system sources are answered by the harness (flavour     *)
(* norand).  Each call carries the list of source attempts the real        *)
(* function made (att) with the scheduled answers; the attempts are folded *)
(* through Random!AttemptF starting from the sticky state accumulated over *)
(* the earlier calls of the same process, and the call is judged:          *)
(*   OSBytes      (C12) a successful salt is the exact encoding            *)
(*                (Gensalt.tla) of whole-request bytes one source          *)
(*                delivered in this call                                   *)
(* and compared with Random.tla as model divergences (never fatal):        *)
(*   ChainOrder   the attempts are exactly those the specification makes   *)
(*                (order, never a retired source, the method's byte count) *)
(*   GaveUpEarly  the call stopped while a live source was left            *)
(*   ChainResult  gensalt succeeded iff the chain delivered                *)
(*   ChainErrno   a failure reports the errno the chain leaves             *)
(*   FdLeak       a descriptor is left open                                *)
(***************************************************************************)
EXTENDS Naturals, Integers, Sequences, FiniteSets, TLC, Json, IOUtils, SequencesExt
S == INSTANCE Settings
G == INSTANCE Gensalt
R == INSTANCE Random

T == ndJsonDeserialize(IOEnv.XCV_TRACE)
OutFile == IOEnv.XCV_VERDICT
VARIABLES l, dead, viol, div, cnt
vars == <<l, dead, viol, div, cnt>>

Enabled == IF Len(T) > 0 /\ T[1].e = "config" THEN {T[1].E[i] : i \in 1..Len(T[1].E)} ELSE S!AllMethods
C == IF Len(T) > 0 /\ T[1].e = "config" /\ "compiled" \in DOMAIN T[1] THEN T[1].compiled ELSE R!AllSources
IsGs(e) == e \in {"gensalt_rn", "gensalt_r", "xgensalt_r", "gensalt", "xgensalt", "gensalt_ra"}
Success(ev) == ev.ret # "null" /\ ev.resk = "str"
MethodOfEv(ev) == G!MethodOf(Enabled, ev.prefixnull = 1, ev.prefix)
\* the call gets as far as drawing entropy (crypt.c: size, prefix and method checks come first)
Reaches(ev) == ev.osize >= 3 /\ MethodOfEv(ev) # "none" /\ ev.rbnull = 1

ModelAgrees(ev, mo) ==
  IF ~mo.ok THEN ~Success(ev)
  ELSE /\ Success(ev)
       /\ CASE mo.kind = "exact" -> ev.res = mo.str
            [] mo.kind = "sha1" ->
                 LET r == ev.res
                     e == S!DigitRunEnd(r, 7) IN
                 S!StartsWith(r, mo.str) /\ S!At(r, e) = 36 /\ S!Drop(r, e) = mo.tail
            [] OTHER -> S!StartsWith(ev.res, mo.str)

V(n) == [l |-> l, p |-> "C12", n |-> n]
Fold(ev, n) ==
  LET s0 == R!BeginF(R!Idle(dead, ev.ein), n, ev.ein)
      step(acc, at) ==
        LET j == R!Candidate(C, acc.st) IN
        IF j = 0 \/ C[j] # at.s \/ at.a \notin R!Answers(at.s) \/ (at.n # n /\ ~(at.s = "u" /\ at.a = "N"))
        THEN [st |-> acc.st, bad |-> TRUE]
        ELSE [st |-> R!AttemptF(C, acc.st, j, at.a), bad |-> acc.bad]
  IN FoldLeft(step, [st |-> s0, bad |-> FALSE], ev.att)

\* Property level (C12): a successful call encodes whole-request bytes that one OS source delivered in this call --
\* never the zero fill, never the partial bytes of a short answer, never nothing.
OSBytes(ev, n) ==
  (Success(ev) /\ n > 0) =>
     /\ ev.entcalls >= 1 /\ Len(ev.ent) = n
     /\ ModelAgrees(ev, G!Gensalt(Enabled, ev.prefixnull = 1, ev.prefix, ev.cd, TRUE, ev.rb, ev.nrbytes, ev.ent, ev.osize))
\* Conformance level: how the chain is walked (order, stickiness, errno, descriptors) is the code's business as long
\* as OSBytes holds; disagreements with Random.tla are reported as model divergences and do not fail the check.
D(n) == [l |-> l, d |-> n]
JudgeRB(ev) ==
  LET m == MethodOfEv(ev) IN
  IF ~Reaches(ev) THEN [viol |-> {}, div |-> IF Len(ev.att) = 0 THEN {} ELSE {D("ChainOrder")}, dead |-> dead]
  ELSE
  LET n  == G!AutoBytes[m]
      f  == Fold(ev, n)
      early == f.st.pc = "try" /\ R!Candidate(C, f.st) # 0
      s1 == IF f.st.pc = "try" /\ ~early THEN R!ExhaustedF(f.st) ELSE f.st
  IN [viol |-> IF OSBytes(ev, n) THEN {} ELSE {V("OSBytes")},
      div |->
        (IF f.bad THEN {D("ChainOrder")} ELSE {})
        \cup (IF early THEN {D("GaveUpEarly")} ELSE {})
        \cup (IF f.bad \/ early THEN {}
              \* (a method whose generator refuses the request anyway -- $2x$ -- fails after a successful draw)
              ELSE (IF (s1.ret /\ ~Success(ev) /\ Len(ev.ent) = n
                           /\ G!Gensalt(Enabled, ev.prefixnull = 1, ev.prefix, ev.cd, TRUE, ev.rb, ev.nrbytes, ev.ent, ev.osize).ok)
                       \/ (~s1.ret /\ Success(ev)) THEN {D("ChainResult")} ELSE {})
                   \cup (IF ~s1.ret /\ ~Success(ev) /\ s1.errw /\ ev.errno # s1.err THEN {D("ChainErrno")} ELSE {}))
        \cup (IF ev.fdo # 0 THEN {D("FdLeak")} ELSE {})
        \cup (IF R!TrueMeansFull(s1) /\ R!FalseMeansNotFull(s1) THEN {} ELSE {D("SpecInvariant")}),
      dead |-> s1.dead]

Init == l = 1 /\ dead = {} /\ viol = {} /\ div = {} /\ cnt = [calls |-> 0, ok |-> 0, failed |-> 0]
Step ==
  /\ l <= Len(T)
  /\ l' = l + 1
  /\ LET ev == T[l] IN
     IF IsGs(ev.e) THEN
        LET j == JudgeRB(ev) IN
        /\ viol' = viol \cup j.viol
        /\ div' = div \cup j.div
        /\ dead' = j.dead
        /\ cnt' = [cnt EXCEPT !.calls = @ + 1, !.ok = @ + (IF Success(ev) THEN 1 ELSE 0),
                               !.failed = @ + (IF Success(ev) THEN 0 ELSE 1)]
     ELSE IF ev.e = "NewProcess" THEN        \* the sticky flags are statics of the library: a new process starts clean
        /\ dead' = {}
        /\ UNCHANGED <<viol, div, cnt>>
     ELSE IF ev.e = "Fault" THEN
        /\ viol' = viol \cup {V("Fault")}
        /\ UNCHANGED <<dead, div, cnt>>
     ELSE UNCHANGED <<dead, viol, div, cnt>>
Spec == Init /\ [][Step]_vars
Finish ==
  l <= Len(T) \/
  JsonSerialize(OutFile, [consumed |-> l - 1, lines |-> Len(T), viol |-> viol, div |-> div, cnt |-> cnt])
=============================================================================
