---- MODULE Threads_TTrace_1790477874 ----
EXTENDS Threads, Sequences, TLCExt, Toolbox, Naturals, TLC

_expression ==
    LET Threads_TEExpression == INSTANCE Threads_TEExpression
    IN Threads_TEExpression!expression
----

_trace ==
    LET Threads_TETrace == INSTANCE Threads_TETrace
    IN Threads_TETrace!trace
----

_inv ==
    ~(
        TLCGet("level") = Len(_TETrace)
        /\
        cur = (<<"crypt", "crypt">>)
        /\
        pc = (<<"write", "write">>)
        /\
        mem = ((<<"static", "nr_crypt_ctx.0">> :> "nobody" @@ <<"static", "output.0">> :> "nobody" @@ <<"own", "1">> :> "nobody" @@ <<"own", "2">> :> "nobody"))
        /\
        left = (<<1, 1>>)
        /\
        ok = (<<TRUE, TRUE>>)
    )
----

_init ==
    /\ cur = _TETrace[1].cur
    /\ ok = _TETrace[1].ok
    /\ pc = _TETrace[1].pc
    /\ left = _TETrace[1].left
    /\ mem = _TETrace[1].mem
----

_next ==
    /\ \E i,j \in DOMAIN _TETrace:
        /\ \/ /\ j = i + 1
              /\ i = TLCGet("level")
        /\ cur  = _TETrace[i].cur
        /\ cur' = _TETrace[j].cur
        /\ ok  = _TETrace[i].ok
        /\ ok' = _TETrace[j].ok
        /\ pc  = _TETrace[i].pc
        /\ pc' = _TETrace[j].pc
        /\ left  = _TETrace[i].left
        /\ left' = _TETrace[j].left
        /\ mem  = _TETrace[i].mem
        /\ mem' = _TETrace[j].mem

\* Uncomment the ASSUME below to write the states of the error trace
\* to the given file in Json format. Note that you can pass any tuple
\* to `JsonSerialize`. For example, a sub-sequence of _TETrace.
    \* ASSUME
    \*     LET J == INSTANCE Json
    \*         IN J!JsonSerialize("Threads_TTrace_1790477874.json", _TETrace)

=============================================================================

 Note that you can extract this module `Threads_TEExpression`
  to a dedicated file to reuse `expression` (the module in the 
  dedicated `Threads_TEExpression.tla` file takes precedence 
  over the module `Threads_TEExpression` below).

---- MODULE Threads_TEExpression ----
EXTENDS Threads, Sequences, TLCExt, Toolbox, Naturals, TLC

expression == 
    [
        \* To hide variables of the `Threads` spec from the error trace,
        \* remove the variables below.  The trace will be written in the order
        \* of the fields of this record.
        cur |-> cur
        ,ok |-> ok
        ,pc |-> pc
        ,left |-> left
        ,mem |-> mem
        
        \* Put additional constant-, state-, and action-level expressions here:
        \* ,_stateNumber |-> _TEPosition
        \* ,_curUnchanged |-> cur = cur'
        
        \* Format the `cur` variable as Json value.
        \* ,_curJson |->
        \*     LET J == INSTANCE Json
        \*     IN J!ToJson(cur)
        
        \* Lastly, you may build expressions over arbitrary sets of states by
        \* leveraging the _TETrace operator.  For example, this is how to
        \* count the number of times a spec variable changed up to the current
        \* state in the trace.
        \* ,_curModCount |->
        \*     LET F[s \in DOMAIN _TETrace] ==
        \*         IF s = 1 THEN 0
        \*         ELSE IF _TETrace[s].cur # _TETrace[s-1].cur
        \*             THEN 1 + F[s-1] ELSE F[s-1]
        \*     IN F[_TEPosition - 1]
    ]

=============================================================================



Parsing and semantic processing can take forever if the trace below is long.
 In this case, it is advised to uncomment the module below to deserialize the
 trace from a generated binary file.

\*
\*---- MODULE Threads_TETrace ----
\*EXTENDS Threads, IOUtils, TLC
\*
\*trace == IODeserialize("Threads_TTrace_1790477874.bin", TRUE)
\*
\*=============================================================================
\*

---- MODULE Threads_TETrace ----
EXTENDS Threads, TLC

trace == 
    <<
    ([cur |-> <<"none", "none">>,pc |-> <<"idle", "idle">>,mem |-> (<<"static", "nr_crypt_ctx.0">> :> "nobody" @@ <<"static", "output.0">> :> "nobody" @@ <<"own", "1">> :> "nobody" @@ <<"own", "2">> :> "nobody"),left |-> <<2, 2>>,ok |-> <<TRUE, TRUE>>]),
    ([cur |-> <<"crypt", "none">>,pc |-> <<"write", "idle">>,mem |-> (<<"static", "nr_crypt_ctx.0">> :> "nobody" @@ <<"static", "output.0">> :> "nobody" @@ <<"own", "1">> :> "nobody" @@ <<"own", "2">> :> "nobody"),left |-> <<1, 2>>,ok |-> <<TRUE, TRUE>>]),
    ([cur |-> <<"crypt", "crypt">>,pc |-> <<"write", "write">>,mem |-> (<<"static", "nr_crypt_ctx.0">> :> "nobody" @@ <<"static", "output.0">> :> "nobody" @@ <<"own", "1">> :> "nobody" @@ <<"own", "2">> :> "nobody"),left |-> <<1, 1>>,ok |-> <<TRUE, TRUE>>])
    >>
----


=============================================================================

---- CONFIG Threads_TTrace_1790477874 ----
CONSTANTS
    Thr = { 1 , 2 }
    Calls = { "crypt_r" , "crypt" , "crypt_gensalt" }
    NCalls = 2

INVARIANT
    _inv

CHECK_DEADLOCK
    \* CHECK_DEADLOCK off because of PROPERTY or INVARIANT above.
    FALSE

INIT
    _init

NEXT
    _next

CONSTANT
    _TETrace <- _trace

ALIAS
    _expression
=============================================================================
\* Generated on Sun Sep 27 02:57:55 UTC 2026