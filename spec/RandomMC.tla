------------------------------ MODULE RandomMC ------------------------------
(***************************************************************************)
(* The fallback chain of get_random_bytes as a state machine: calls follow *)
(* one another in one process, the environment answers every attempt.      *)
(* TLC explores every history of MaxCalls calls; with LogHist it also      *)
(* writes each complete history out (one file per behaviour), and the      *)
(* driver replays ALL of them into the real function (tools/props.py,      *)
(* random_chain).                                                          *)
(***************************************************************************)
EXTENDS Naturals, Sequences, FiniteSets, TLC, Json, IOUtils
CONSTANTS Compiled, MaxCalls, Lens, LogHist
R == INSTANCE Random
VARIABLES st, ncalls, hist, cur
vars == <<st, ncalls, hist, cur>>
\* hist: finished calls as [n, ans] (ans = the answers given, in order); cur: answers of the running call

Init == st = R!Idle({}, 0) /\ ncalls = 0 /\ hist = <<>> /\ cur = <<>>
Finish(s2, answers) ==
  IF R!Finished(s2)
  THEN /\ hist' = (IF LogHist THEN Append(hist, [n |-> s2.n, ans |-> answers]) ELSE hist)
       /\ cur' = <<>>
  ELSE hist' = hist /\ cur' = answers

Begin(len, ein) ==
  /\ st.pc = "idle" /\ ncalls < MaxCalls
  /\ st' = R!BeginF(st, len, ein)
  /\ ncalls' = ncalls + 1
  /\ Finish(st', <<>>)
Attempt(a) ==
  LET j == R!Candidate(Compiled, st) IN
  /\ j > 0 /\ a \in R!Answers(Compiled[j])
  /\ st' = R!AttemptF(Compiled, st, j, a)
  /\ Finish(st', IF LogHist THEN Append(cur, a) ELSE cur)
  /\ UNCHANGED ncalls
Exhausted ==
  /\ st.pc = "try" /\ R!Candidate(Compiled, st) = 0
  /\ st' = R!ExhaustedF(st)
  /\ Finish(st', cur)
  /\ UNCHANGED ncalls
Next == (\E len \in Lens, ein \in {0, 11} : Begin(len, ein)) \/ (\E a \in {"K", "S", "F", "I", "P", "N"} : Attempt(a)) \/ Exhausted
Spec == Init /\ [][Next]_vars
FairSpec == Spec /\ WF_vars((\E a \in {"K", "S", "F", "I", "P", "N"} : Attempt(a)) \/ Exhausted)

\* ---- properties ---------------------------------------------------------
TrueMeansFull == R!TrueMeansFull(st)
FalseMeansNotFull == R!FalseMeansNotFull(st)
NoFdLeak == R!NoFdLeak(st)
FalseSetsErrno == R!FalseSetsErrno(st)
FalseSetsErrnoStrict == R!FalseSetsErrnoStrict(st)         \* violated: the named deviation (Random_deviation.cfg)
\* a retired source is never asked again, and retirement is for the rest of the process
DeadMonotone == [][st.dead \subseteq st'.dead]_vars
NeverAskDead == [][\A a \in {"K", "S", "F", "I", "P", "N"} : Attempt(a) => st'.last[1] \notin st.dead]_vars
\* with every source retired a call fails with ENOSYS without asking anybody
AllDeadENOSYS ==
  (R!Finished(st) /\ st.n \in 1..256 /\ st.last = <<"none", "none">>) => (~st.ret /\ st.err = R!ENOSYS)
\* a request of 0 bytes succeeds untouched, one of more than 256 fails with EIO, whatever the sources say
Bounds == R!Finished(st) => /\ (st.n = 0 /\ ncalls > 0 => st.ret /\ st.buf = <<"untouched">>)
                             /\ (st.n > 256 => ~st.ret /\ st.err = R!EIO /\ st.buf = <<"untouched">>)
\* at most one attempt per compiled source per call: every call ends
Terminates == st.pc = "try" ~> st.pc = "idle"

MCAll == <<"e", "r", "E", "R", "u">>
MCLinux == <<"e", "r", "R", "u">>          \* this platform: no SYS_getentropy
ASSUME TLCSet(8, 0)
Export ==
  (LogHist /\ ncalls = MaxCalls /\ R!Finished(st)) =>
     LET k == TLCGet(8) IN
       /\ ndJsonSerialize(IOEnv.XCV_BEHAV_DIR \o "/r" \o ToString(k) \o ".ndjson", hist)
       /\ TLCSet(8, k + 1)
=============================================================================
