SPECIFICATION Spec
CONSTANT LogHist = FALSE
CONSTANT MCObj = {"o1"}
CONSTANT MCHnd = {}
CONSTANT MCBlk = {}
CONSTANT MCTokenFirst = TRUE
CONSTANT MCFailureTokens = FALSE
CONSTANT MCReqs = {"okA", "okA2", "hashA", "okB", "badchar", "unknown", "star0", "star1", "methfail", "nullphrase", "nullsetting", "longphrase"}
VIEW View
INVARIANT TypeOK FailClosed NoStale TokenShape ShortSizes WipedIffValidated ResultIsFunction
CHECK_DEADLOCK FALSE
