SPECIFICATION Spec
CONSTANT Compiled <- MCAll
CONSTANT MaxCalls = 2
CONSTANT Lens = {16}
CONSTANT LogHist = FALSE
INVARIANT FalseSetsErrnoStrict
CHECK_DEADLOCK FALSE
