------------------------------ MODULE XCryptMC ------------------------------
(* Exhaustive configuration of XCrypt: 2 caller objects, 1 handle, 3 heap blocks, the request
   classes of DESIGN 1.1.  Also carries the behaviour log used to export TLC-generated
   behaviours for replay into the real library (simulation mode). *)
EXTENDS Naturals, Sequences, TLC, Json, IOUtils

\* request classes: which (phrase, setting) the call is made with
MCReq == {"okA", "okA2", "hashA", "okB", "badchar", "unknown", "star0", "star1", "methfail",
          "nullphrase", "nullsetting", "longphrase"}
MCOutcome(r) ==
  CASE r = "okA"    -> [k |-> "ok",   err |-> 0,  validated |-> TRUE,  key |-> "A",  star1 |-> FALSE]
    [] r = "okA2"   -> [k |-> "ok",   err |-> 0,  validated |-> TRUE,  key |-> "A2", star1 |-> FALSE]
    [] r = "hashA"  -> [k |-> "ok",   err |-> 0,  validated |-> TRUE,  key |-> "A",  star1 |-> FALSE]
    [] r = "okB"    -> [k |-> "ok",   err |-> 0,  validated |-> TRUE,  key |-> "B",  star1 |-> FALSE]
    [] r = "badchar" -> [k |-> "fail", err |-> 22, validated |-> FALSE, key |-> "-", star1 |-> FALSE]
    [] r = "unknown" -> [k |-> "fail", err |-> 22, validated |-> FALSE, key |-> "-", star1 |-> FALSE]
    [] r = "star0"  -> [k |-> "fail", err |-> 22, validated |-> FALSE, key |-> "-", star1 |-> TRUE]
    [] r = "star1"  -> [k |-> "fail", err |-> 22, validated |-> FALSE, key |-> "-", star1 |-> FALSE]
    [] r = "methfail" -> [k |-> "fail", err |-> 22, validated |-> TRUE, key |-> "-", star1 |-> FALSE]
    [] r = "nullphrase" -> [k |-> "fail", err |-> 22, validated |-> FALSE, key |-> "-", star1 |-> FALSE]
    [] r = "nullsetting" -> [k |-> "fail", err |-> 22, validated |-> FALSE, key |-> "-", star1 |-> FALSE]
    [] r = "longphrase" -> [k |-> "fail", err |-> 34, validated |-> FALSE, key |-> "-", star1 |-> FALSE]

VARIABLES obj, nr, gsbuf, deskey, hnd, heap, errno, ret, last, hist
CONSTANTS MCObj, MCHnd, MCBlk, MCReqs, MCTokenFirst, MCFailureTokens
X == INSTANCE XCrypt WITH Obj <- MCObj, Hnd <- MCHnd, Blk <- MCBlk,
                          Req <- MCReqs, OutcomeOf <- MCOutcome, TokenFirst <- MCTokenFirst, FailureTokens <- MCFailureTokens

vars == <<obj, nr, gsbuf, deskey, hnd, heap, errno, ret, last, hist>>

\* hist: the behaviour so far, as the calls a replayer must make (only used with -simulate)
CONSTANT LogHist
Step(l) == IF LogHist THEN hist' = Append(hist, l) ELSE hist' = hist
Init == X!Init /\ hist = <<>>
Next ==
  \/ \E o \in MCObj, r \in MCReqs, sz \in X!SizeClass :
        X!CryptRN(o, r, sz) /\ Step([fn |-> "crypt_rn", o |-> o, r |-> r, sz |-> sz])
  \/ \E o \in MCObj, r \in MCReqs : X!CryptR(o, r) /\ Step([fn |-> "crypt_r", o |-> o, r |-> r, sz |-> "-"])
  \/ \E r \in MCReqs : X!CryptStatic(r) /\ Step([fn |-> "crypt", o |-> "nr", r |-> r, sz |-> "-"])
  \/ \E h \in MCHnd, r \in MCReqs, f \in BOOLEAN :
        X!CryptRA(h, r, f) /\ Step([fn |-> IF f THEN "crypt_ra_fail" ELSE "crypt_ra", o |-> h, r |-> r, sz |-> "-"])
  \/ \E h \in MCHnd, kind \in {"null", "small", "full"}, s \in X!HSize :
        X!AppSetHandle(h, kind, s) /\ Step([fn |-> "app_set", o |-> h, r |-> kind, sz |-> s])
  \/ \E h \in MCHnd : X!AppFree(h) /\ Step([fn |-> "app_free", o |-> h, r |-> "-", sz |-> "-"])
  \/ \E o \in MCObj : X!Scribble(o) /\ Step([fn |-> "scribble", o |-> o, r |-> "-", sz |-> "-"])
  \/ \E ok \in BOOLEAN : X!GensaltStatic(ok) /\ Step([fn |-> "gensalt", o |-> "-", r |-> IF ok THEN "ok" ELSE "bad", sz |-> "-"])
  \/ \E o \in MCObj, k \in X!DesKeys : X!SetkeyR(o, k) /\ Step([fn |-> "setkey_r", o |-> o, r |-> k, sz |-> "-"])
  \/ \E o \in MCObj : X!EncryptR(o) /\ Step([fn |-> "encrypt_r", o |-> o, r |-> "-", sz |-> "-"])
  \/ \E k \in X!DesKeys : X!Setkey(k) /\ Step([fn |-> "setkey", o |-> "-", r |-> k, sz |-> "-"])
  \/ X!Encrypt /\ Step([fn |-> "encrypt", o |-> "-", r |-> "-", sz |-> "-"])
Spec == Init /\ [][Next]_vars

FailClosed == X!FailClosed
NoStale == X!NoStale
TokenShape == X!TokenShape
ShortSizes == X!ShortSizes
WipedIffValidated == X!WipedIffValidated
ResultIsFunction == X!ResultIsFunction
GrowErasedFirst == X!GrowErasedFirst
OneOwner == X!OneOwner
NoDangling == X!NoDangling
SizeHonest == X!SizeHonest
HandleSound == X!HandleSound
TypeOK == X!TypeOK

\* the exhaustive run hides the ghost and the log
View == <<obj, nr, gsbuf, deskey, hnd, heap, errno, ret, last>>

\* simulation export: when a behaviour reaches the requested depth, write it out and stop it
ExportDepth == 30
ASSUME TLCSet(7, 0)
\* an INVARIANT (always TRUE): in simulation mode invariants are evaluated on the states of the
\* behaviour being generated only, so each behaviour is written exactly once, at ExportDepth
Export ==
  (LogHist /\ Len(hist) = ExportDepth) =>
     LET n == TLCGet(7) IN
       /\ ndJsonSerialize(IOEnv.XCV_BEHAV_DIR \o "/b" \o ToString(n) \o ".ndjson", hist)
       /\ TLCSet(7, n + 1)
=============================================================================
