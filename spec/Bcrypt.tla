-------------------------------- MODULE Bcrypt --------------------------------
(***************************************************************************)
(* bcrypt's key expansion (crypt_blowfish BF_set_key) as a function        *)
(*   (key bytes, subtype) -> (expanded key, initial P-array)               *)
(* including the two documented legacy behaviours: the sign-extension bug  *)
(* emulated for $2x$ and the collision counter-measure of $2a$.            *)
(* Words are 4-byte sequences, most significant byte first.                *)
(***************************************************************************)
EXTENDS Naturals, Integers, Sequences, FiniteSets, TLC, SequencesExt
M == INSTANCE Mac

\* the Blowfish P-array (hexadecimal digits of pi)
P0 == << <<36,63,106,136>>, <<133,163,8,211>>, <<19,25,138,46>>, <<3,112,115,68>>, <<164,9,56,34>>, <<41,159,49,208>>,
         <<8,46,250,152>>, <<236,78,108,137>>, <<69,40,33,230>>, <<56,208,19,119>>, <<190,84,102,207>>, <<52,233,12,108>>,
         <<192,172,41,183>>, <<201,124,80,221>>, <<63,132,213,181>>, <<181,71,9,23>>, <<146,22,213,217>>, <<137,121,251,27>> >>

Seq1To(n) == [i \in 1..n |-> i]
\* the key is used cyclically INCLUDING its terminating NUL
Stream(key, n) == LET k == key \o <<0>> IN [i \in 1..n |-> k[((i - 1) % Len(k)) + 1]]
\* one 32-bit word from four characters, the correct way
Correct(c) == c
\* ... and with each character sign-extended before it is OR-ed in (the historical bug)
SExt(x) == IF x >= 128 THEN <<255, 255, 255, x>> ELSE <<0, 0, 0, x>>
OrW(a, b) == [i \in 1..4 |-> IF a[i] = 255 \/ b[i] = 255 THEN 255 ELSE IF a[i] = 0 THEN b[i] ELSE IF b[i] = 0 THEN a[i] ELSE 255]
\* (operands are such that a byte is 0, 255 or only one side is non-zero: shifting leaves the low byte 0)
Shl8(w) == <<w[2], w[3], w[4], 0>>
Buggy(c) == FoldLeft(LAMBDA t, j : OrW(Shl8(t), SExt(c[j])), <<0, 0, 0, 0>>, Seq1To(4))
XorW(a, b) == M!XorSeq(a, b)

\* flags: 1 = $2x$ (bug), 2 = $2a$ (safety), 4 = $2b$ / $2y$
BFSetKey(key, flags) ==
  LET s == Stream(key, 72)
      chars(i) == SubSeq(s, 4 * i - 3, 4 * i)
      bug == flags = 1
      w(i) == IF bug THEN Buggy(chars(i)) ELSE Correct(chars(i))
      \* a sign extension in characters 2..4 of some group
      sign == \E i \in 1..18 : \E j \in 2..4 : chars(i)[j] >= 128
      same == \A i \in 1..18 : Buggy(chars(i)) = Correct(chars(i))
      flip == flags = 2 /\ sign /\ same
      init0 == [i \in 1..18 |-> XorW(P0[i], w(i))] IN
  [expanded |-> [i \in 1..18 |-> w(i)],
   initial  |-> IF flip THEN [init0 EXCEPT ![1] = <<@[1], M!XorTab[@[2]][1], @[3], @[4]>>] ELSE init0]

\* memory image of 18 little-endian words -> words most significant byte first
Words(mem) == [i \in 1..18 |-> <<mem[4 * i], mem[4 * i - 1], mem[4 * i - 2], mem[4 * i - 3]>>]
=============================================================================
