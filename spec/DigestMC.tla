------------------------------ MODULE DigestMC ------------------------------
(***************************************************************************)
(* The streaming machine of the digest primitives (Init / Update / Final   *)
(* with the fill / bulk / tail split of alg-sha256.c:230-269,              *)
(* alg-md5.c:218-251) refines the one-shot definition                      *)
(*     blocks handed to the compression function = Split(Pad(msg))         *)
(* for EVERY way of cutting the message into update chunks (including      *)
(* empty chunks), checked exhaustively for a scaled block size B and       *)
(* length-field width L.                                                   *)
(***************************************************************************)
EXTENDS Naturals, Sequences, TLC
CONSTANTS B, L, MaxLen

Zeros(n) == [i \in 1..n |-> 0]
Pad(msg) == LET n == Len(msg)  k == (B - ((n + 1 + L) % B)) % B IN
            msg \o <<128>> \o Zeros(k) \o [i \in 1..L |-> IF i = L THEN (8 * n) % 256 ELSE 0]
Chunks(s) == [i \in 1..(Len(s) \div B) |-> SubSeq(s, (i - 1) * B + 1, i * B)]
Take(s, n) == SubSeq(s, 1, n)
Drop(s, n) == SubSeq(s, n + 1, Len(s))

VARIABLES msg, rest, buf, blocks, phase
vars == <<msg, rest, buf, blocks, phase>>
Init == /\ \E n \in 0..MaxLen : msg = [i \in 1..n |-> i]
        /\ rest = msg /\ buf = <<>> /\ blocks = <<>> /\ phase = "open"

Update(k) ==
  /\ phase = "open" /\ k <= Len(rest)
  /\ LET chunk == Take(rest, k)  r == Len(buf) IN
     /\ rest' = Drop(rest, k)
     /\ IF k < B - r
          THEN buf' = buf \o chunk /\ UNCHANGED blocks                                   \* fill only
          ELSE LET first == buf \o Take(chunk, B - r)
                   more  == Drop(chunk, B - r)
                   nfull == Len(more) \div B
               IN /\ blocks' = blocks \o <<first>> \o Chunks(Take(more, nfull * B))      \* finish + bulk
                  /\ buf' = Drop(more, nfull * B)                                        \* tail
  /\ UNCHANGED <<msg, phase>>

\* Final: pad the buffered tail; one block if the length field still fits, else two
Final ==
  /\ phase = "open" /\ rest = <<>>
  /\ LET r == Len(buf)
         padded == IF r + 1 + L <= B
                     THEN buf \o <<128>> \o Zeros(B - r - 1 - L)
                     ELSE buf \o <<128>> \o Zeros(B - r - 1) \o Zeros(B - L)
         lenf == [i \in 1..L |-> IF i = L THEN (8 * Len(msg)) % 256 ELSE 0]
     IN blocks' = blocks \o Chunks(padded \o lenf)
  /\ buf' = <<>> /\ phase' = "final" /\ UNCHANGED <<msg, rest>>

Next == (\E k \in 0..MaxLen : Update(k)) \/ Final
Spec == Init /\ [][Next]_vars

Refines == phase = "final" => blocks = Chunks(Pad(msg))
BufBound == Len(buf) < B
Progress == phase = "open" => (\A i \in 1..Len(blocks) : Len(blocks[i]) = B)
=============================================================================
