--------------------------------- MODULE Abi ---------------------------------
(***************************************************************************)
(* The released binary interface of libcrypt.so.1 (libxcrypt 4.4.33 as     *)
(* installed; <crypt.h> and `readelf --dyn-syms`) as specification         *)
(* constants, and the judgement of the facts dumped from a fresh build     *)
(* (C20): every released (symbol, version) pair is still exported with the *)
(* same default-ness, compat aliases share their implementation, struct    *)
(* crypt_data keeps its size and field offsets, public constants keep      *)
(* their values.                                                           *)
(***************************************************************************)
EXTENDS Naturals, Sequences, FiniteSets, TLC, Json, IOUtils

\* [symbol, version, default?]
Released == {
  <<"crypt", "XCRYPT_2.0", TRUE>>, <<"crypt", "GLIBC_2.2.5", FALSE>>,
  <<"crypt_r", "XCRYPT_2.0", TRUE>>, <<"crypt_r", "GLIBC_2.2.5", FALSE>>,
  <<"crypt_rn", "XCRYPT_2.0", TRUE>>, <<"crypt_ra", "XCRYPT_2.0", TRUE>>,
  <<"crypt_gensalt", "XCRYPT_2.0", TRUE>>, <<"crypt_gensalt_rn", "XCRYPT_2.0", TRUE>>, <<"crypt_gensalt_ra", "XCRYPT_2.0", TRUE>>,
  <<"crypt_gensalt_r", "XCRYPT_2.0", FALSE>>,
  <<"crypt_checksalt", "XCRYPT_4.3", TRUE>>, <<"crypt_preferred_method", "XCRYPT_4.4", TRUE>>,
  <<"encrypt", "GLIBC_2.2.5", FALSE>>, <<"encrypt_r", "GLIBC_2.2.5", FALSE>>,
  <<"setkey", "GLIBC_2.2.5", FALSE>>, <<"setkey_r", "GLIBC_2.2.5", FALSE>>, <<"fcrypt", "GLIBC_2.2.5", FALSE>>,
  <<"xcrypt", "XCRYPT_2.0", FALSE>>, <<"xcrypt_r", "XCRYPT_2.0", FALSE>>,
  <<"xcrypt_gensalt", "XCRYPT_2.0", FALSE>>, <<"xcrypt_gensalt_r", "XCRYPT_2.0", FALSE>> }

\* With --enable-obsolete-api=yes (COMPAT_ABI = yes, as this tree is configured) libxcrypt 4.x additionally exports
\* the bindings of the Openwall / ALT / SUSE libcrypts (lib/libcrypt.map.in of the 4.4 series; versions below the
\* platform floor GLIBC_2.2.5 are raised to it).  The distribution's libcrypt.so.1 is built with =glibc and lacks them.
ReleasedCompatAll == {
  <<"crypt_rn", "GLIBC_2.2.5", FALSE>>, <<"crypt_ra", "GLIBC_2.2.5", FALSE>>,
  <<"crypt_gensalt", "GLIBC_2.2.5", FALSE>>, <<"crypt_gensalt_rn", "GLIBC_2.2.5", FALSE>>, <<"crypt_gensalt_ra", "GLIBC_2.2.5", FALSE>>,
  <<"crypt_gensalt", "OW_CRYPT_1.0", FALSE>>, <<"crypt_gensalt_rn", "OW_CRYPT_1.0", FALSE>>, <<"crypt_gensalt_ra", "OW_CRYPT_1.0", FALSE>> }

\* compatibility symbols are the same function as their modern counterpart
AliasClasses == { {"crypt", "fcrypt", "xcrypt"}, {"crypt_r", "xcrypt_r"},
                  {"crypt_gensalt_rn", "crypt_gensalt_r", "xcrypt_gensalt_r"}, {"crypt_gensalt", "xcrypt_gensalt"} }

Layout == [sizeof |-> 32768, output |-> 0, setting |-> 384, input |-> 768, reserved |-> 1280, initialized |-> 2047, internal |-> 2048,
           sz_output |-> 384, sz_setting |-> 384, sz_input |-> 512, sz_reserved |-> 767, sz_initialized |-> 1, sz_internal |-> 30720]
Constants == [CRYPT_OUTPUT_SIZE |-> 384, CRYPT_MAX_PASSPHRASE_SIZE |-> 512, CRYPT_GENSALT_OUTPUT_SIZE |-> 192,
              CRYPT_DATA_RESERVED_SIZE |-> 767, CRYPT_DATA_INTERNAL_SIZE |-> 30720,
              CRYPT_SALT_OK |-> 0, CRYPT_SALT_INVALID |-> 1, CRYPT_SALT_METHOD_DISABLED |-> 2, CRYPT_SALT_METHOD_LEGACY |-> 3,
              CRYPT_SALT_TOO_CHEAP |-> 4, CRYPT_GENSALT_IMPLEMENTS_DEFAULT_PREFIX |-> 1, CRYPT_GENSALT_IMPLEMENTS_AUTO_ENTROPY |-> 1]

\* ---- facts from the fresh build: [exports |-> seq of [sym, ver, def, addr], layout |-> record, constants |-> record]
F == JsonDeserialize(IOEnv.XCV_FACTS)
Exported == {<<F.exports[i].sym, F.exports[i].ver, F.exports[i].def = 1>> : i \in 1..Len(F.exports)}
AddrOf(sym) == {F.exports[i].addr : i \in {j \in 1..Len(F.exports) : F.exports[j].sym = sym}}

ReleasedHere == Released \cup (IF "compat_abi" \in DOMAIN F /\ F.compat_abi = "yes" THEN ReleasedCompatAll ELSE {})
MissingSymbols == ReleasedHere \ Exported
\* every version of one symbol is the same function (an old binding must behave as the current one)
VersionsDiffer == {s \in {x[1] : x \in ReleasedHere} : Cardinality(AddrOf(s)) > 1}
AliasBroken == {c \in AliasClasses : Cardinality(UNION {AddrOf(s) : s \in c}) # 1}
LayoutDiff == {k \in DOMAIN Layout : ~(k \in DOMAIN F.layout /\ F.layout[k] = Layout[k])}
ConstDiff == {k \in DOMAIN Constants : ~(k \in DOMAIN F.constants /\ F.constants[k] = Constants[k])}

\* ---- the version map as a function of the compatibility flavour ------------------------------------------
\* lib/libcrypt.map.in of the released series, transcribed: per symbol its default version ("-" = none) and its
\* compatibility versions, each with the set of flavours that select it ({} = every flavour that has compat symbols).
\* A binary built against SUSE's, Openwall's or ALT's glibc binds the Openwall extensions at the versions below; a
\* libxcrypt configured with --enable-obsolete-api=<that flavour> (or =yes) must export them.
MapIn == <<
  [s |-> "crypt", d |-> "XCRYPT_2.0", c |-> <<[v |-> "GLIBC_2.0", t |-> {}]>>],
  [s |-> "crypt_r", d |-> "XCRYPT_2.0", c |-> <<[v |-> "GLIBC_2.0", t |-> {}]>>],
  [s |-> "crypt_rn", d |-> "XCRYPT_2.0", c |-> <<[v |-> "GLIBC_2.0", t |-> {"owl", "suse"}], [v |-> "GLIBC_2.2.1", t |-> {"alt"}]>>],
  [s |-> "crypt_gensalt", d |-> "XCRYPT_2.0", c |-> <<[v |-> "GLIBC_2.0", t |-> {"owl", "suse"}], [v |-> "GLIBC_2.2.1", t |-> {"alt"}], [v |-> "OW_CRYPT_1.0", t |-> {"suse"}]>>],
  [s |-> "crypt_gensalt_rn", d |-> "XCRYPT_2.0", c |-> <<[v |-> "GLIBC_2.0", t |-> {"owl", "suse"}], [v |-> "GLIBC_2.2.1", t |-> {"alt"}], [v |-> "OW_CRYPT_1.0", t |-> {"suse"}]>>],
  [s |-> "crypt_ra", d |-> "XCRYPT_2.0", c |-> <<[v |-> "GLIBC_2.0", t |-> {"owl", "suse"}], [v |-> "GLIBC_2.2.2", t |-> {"alt"}]>>],
  [s |-> "crypt_gensalt_ra", d |-> "XCRYPT_2.0", c |-> <<[v |-> "GLIBC_2.0", t |-> {"owl", "suse"}], [v |-> "GLIBC_2.2.2", t |-> {"alt"}], [v |-> "OW_CRYPT_1.0", t |-> {"suse"}]>>],
  [s |-> "crypt_checksalt", d |-> "XCRYPT_4.3", c |-> <<>>], [s |-> "crypt_preferred_method", d |-> "XCRYPT_4.4", c |-> <<>>],
  [s |-> "crypt_gensalt_r", d |-> "-", c |-> <<[v |-> "XCRYPT_2.0", t |-> {}]>>], [s |-> "xcrypt", d |-> "-", c |-> <<[v |-> "XCRYPT_2.0", t |-> {}]>>],
  [s |-> "xcrypt_r", d |-> "-", c |-> <<[v |-> "XCRYPT_2.0", t |-> {}]>>], [s |-> "xcrypt_gensalt", d |-> "-", c |-> <<[v |-> "XCRYPT_2.0", t |-> {}]>>],
  [s |-> "xcrypt_gensalt_r", d |-> "-", c |-> <<[v |-> "XCRYPT_2.0", t |-> {}]>>],
  [s |-> "encrypt", d |-> "-", c |-> <<[v |-> "GLIBC_2.0", t |-> {}]>>], [s |-> "encrypt_r", d |-> "-", c |-> <<[v |-> "GLIBC_2.0", t |-> {}]>>],
  [s |-> "setkey", d |-> "-", c |-> <<[v |-> "GLIBC_2.0", t |-> {}]>>], [s |-> "setkey_r", d |-> "-", c |-> <<[v |-> "GLIBC_2.0", t |-> {}]>>],
  [s |-> "fcrypt", d |-> "-", c |-> <<[v |-> "GLIBC_2.0", t |-> {}]>> ] >>
Flavours == {"yes", "glibc", "alt", "owl", "suse"}
\* the %chain directives: the order of version nodes (a platform's first glibc port is one of the GLIBC entries)
Chain == <<"GLIBC_2.0", "GLIBC_2.2", "GLIBC_2.2.1", "GLIBC_2.2.2", "GLIBC_2.2.5", "GLIBC_2.2.6", "GLIBC_2.3", "GLIBC_2.4", "GLIBC_2.12",
           "GLIBC_2.16", "GLIBC_2.17", "GLIBC_2.18", "GLIBC_2.21", "GLIBC_2.27", "GLIBC_2.29", "GLIBC_2.32", "GLIBC_2.33", "GLIBC_2.35",
           "GLIBC_2.36", "GLIBC_2.38", "OW_CRYPT_1.0", "XCRYPT_2.0", "XCRYPT_4.3", "XCRYPT_4.4">>
Ord(v) == CHOOSE i \in 1..Len(Chain) : Chain[i] = v
\* every platform: SYMVER_MIN = GLIBC_2.0, SYMVER_FLOOR = the port's first glibc; --disable-obsolete-api: both XCRYPT_2.0
Floors == {Chain[i] : i \in 1..20}
\* versions below min are dropped, versions below the floor are replaced by it (BuildCommon.pm, parse_version_map_in)
Selected(c, abi) == c.t = {} \/ abi = "yes" \/ abi \in c.t
Placed(v, min, floor) == IF Ord(v) < Ord(min) THEN {} ELSE IF Ord(v) < Ord(floor) THEN {floor} ELSE {v}
\* [symbol, version, default?] a library of flavour abi on a platform (min, floor) must export
MapOn(abi, min, floor) ==
  UNION {(IF MapIn[i].d = "-" THEN {} ELSE {<<MapIn[i].s, v, TRUE>> : v \in Placed(MapIn[i].d, min, floor)})
         \cup UNION {{<<MapIn[i].s, v, FALSE>> : v \in Placed(MapIn[i].c[j].v, min, floor)} : j \in {k \in 1..Len(MapIn[i].c) : Selected(MapIn[i].c[k], abi)}}
         : i \in 1..Len(MapIn)}
MapFor(abi) == MapOn(abi, "GLIBC_2.0", "GLIBC_2.2.5")        \* this platform
\* consistency of the transcription with the observed releases: the distribution's library is the glibc flavour, the
\* full compat set is the yes flavour (checked as an ASSUME: a wrong transcription stops the run, exit 2)
ASSUME MapFor("glibc") = Released
ASSUME MapFor("yes") = Released \cup ReleasedCompatAll
\* facts: what the TREE's generators emit for each flavour and platform -- the linker version script (maps) and the
\* symver macros the sources apply (symvers), keyed "<abi>/<floor>"; both must provide every pair of MapOn
Pairs(list) == {<<list[i][1], list[i][2]>> : i \in 1..Len(list)}
Configs == {[abi |-> a, min |-> "GLIBC_2.0", floor |-> f] : a \in Flavours, f \in Floors}
             \cup {[abi |-> "no", min |-> "XCRYPT_2.0", floor |-> "XCRYPT_2.0"]}
KeyOf(c) == c.abi \o "/" \o c.floor
FlavourMissing ==
  IF "maps" \notin DOMAIN F THEN {}
  ELSE UNION {LET want == MapOn(c.abi, c.min, c.floor) IN
              {<<KeyOf(c), "version-script", x[1], x[2]>> : x \in {y \in want : <<y[1], y[2]>> \notin Pairs(F.maps[KeyOf(c)])}}
              \cup {<<KeyOf(c), "symver-macros", x[1], x[2]>> : x \in {y \in want : <<y[1], y[2]>> \notin Pairs(F.symvers[KeyOf(c)])}}
              : c \in Configs}

VARIABLE done
Init == done = FALSE
Next == done' = TRUE
Spec == Init /\ [][Next]_done
Finish == done = FALSE \/
  JsonSerialize(IOEnv.XCV_VERDICT,
     [missing |-> {<<x[1], x[2]>> : x \in MissingSymbols}, alias |-> AliasBroken \cup {{s} : s \in VersionsDiffer}, layout |-> LayoutDiff, constants |-> ConstDiff,
      exported |-> Cardinality(Exported), released |-> Cardinality(ReleasedHere), flavour_missing |-> FlavourMissing,
      flavour_pairs |-> [abi \in Flavours |-> Cardinality(MapFor(abi))], configs |-> Cardinality(Configs),
      config_pairs |-> Cardinality(UNION {{<<KeyOf(c), x>> : x \in MapOn(c.abi, c.min, c.floor)} : c \in Configs})])
=============================================================================
