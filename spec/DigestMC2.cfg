SPECIFICATION Spec
CONSTANT B = 6
CONSTANT L = 2
CONSTANT MaxLen = 14
INVARIANT Refines BufBound Progress
CHECK_DEADLOCK FALSE
