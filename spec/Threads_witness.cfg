SPECIFICATION Spec
CONSTANT Thr = {1, 2}
CONSTANT Calls = {"crypt_r", "crypt", "crypt_gensalt"}
CONSTANT NCalls = 2
INVARIANT NoRace AsIfAlone
CHECK_DEADLOCK FALSE
