SPECIFICATION Spec
CONSTANT Sel = "edge"
INVARIANT DefaultIsStrongestEnabled DisabledUnreachable DesPair EnabledUnchanged NoDefault
CHECK_DEADLOCK FALSE
