--------------------------------- MODULE Des ---------------------------------
(***************************************************************************)
(* FIPS 46-3 DES at bit level, and the crypt(3) variant used by the        *)
(* DES-based hashes: salt-controlled swaps of the E-box output and         *)
(* `count` chained iterations between one initial and one final            *)
(* permutation.  Bits are 0/1; bit 1 is the most significant, as in FIPS.  *)
(* Tables: FIPS 46-3 (IP, E, S1..S8 in 4x16 row layout, P, PC-1, PC-2,     *)
(* shift schedule).                                                        *)
(***************************************************************************)
EXTENDS Naturals, Integers, Sequences, FiniteSets, TLC, SequencesExt

IP  == <<58, 50, 42, 34, 26, 18, 10, 2, 60, 52, 44, 36, 28, 20, 12, 4, 62, 54, 46, 38, 30, 22, 14, 6, 64, 56, 48, 40, 32, 24, 16, 8, 57, 49, 41, 33, 25, 17, 9, 1, 59, 51, 43, 35, 27, 19, 11, 3, 61, 53, 45, 37, 29, 21, 13, 5, 63, 55, 47, 39, 31, 23, 15, 7>>
E   == <<32, 1, 2, 3, 4, 5, 4, 5, 6, 7, 8, 9, 8, 9, 10, 11, 12, 13, 12, 13, 14, 15, 16, 17, 16, 17, 18, 19, 20, 21, 20, 21, 22, 23, 24, 25, 24, 25, 26, 27, 28, 29, 28, 29, 30, 31, 32, 1>>
P   == <<16, 7, 20, 21, 29, 12, 28, 17, 1, 15, 23, 26, 5, 18, 31, 10, 2, 8, 24, 14, 32, 27, 3, 9, 19, 13, 30, 6, 22, 11, 4, 25>>
PC1 == <<57, 49, 41, 33, 25, 17, 9, 1, 58, 50, 42, 34, 26, 18, 10, 2, 59, 51, 43, 35, 27, 19, 11, 3, 60, 52, 44, 36, 63, 55, 47, 39, 31, 23, 15, 7, 62, 54, 46, 38, 30, 22, 14, 6, 61, 53, 45, 37, 29, 21, 13, 5, 28, 20, 12, 4>>
PC2 == <<14, 17, 11, 24, 1, 5, 3, 28, 15, 6, 21, 10, 23, 19, 12, 4, 26, 8, 16, 7, 27, 20, 13, 2, 41, 52, 31, 37, 47, 55, 30, 40, 51, 45, 33, 48, 44, 49, 39, 56, 34, 53, 46, 42, 50, 36, 29, 32>>
Shifts == <<1, 1, 2, 2, 2, 2, 2, 2, 1, 2, 2, 2, 2, 2, 2, 1>>
SBox == <<14, 4, 13, 1, 2, 15, 11, 8, 3, 10, 6, 12, 5, 9, 0, 7, 0, 15, 7, 4, 14, 2, 13, 1, 10, 6, 12, 11, 9, 5, 3, 8, 4, 1, 14, 8, 13, 6, 2, 11, 15, 12, 9, 7, 3, 10, 5, 0, 15, 12, 8, 2, 4, 9, 1, 7, 5, 11, 3, 14, 10, 0, 6, 13, 15, 1, 8, 14, 6, 11, 3, 4, 9, 7, 2, 13, 12, 0, 5, 10, 3, 13, 4, 7, 15, 2, 8, 14, 12, 0, 1, 10, 6, 9, 11, 5, 0, 14, 7, 11, 10, 4, 13, 1, 5, 8, 12, 6, 9, 3, 2, 15, 13, 8, 10, 1, 3, 15, 4, 2, 11, 6, 7, 12, 0, 5, 14, 9, 10, 0, 9, 14, 6, 3, 15, 5, 1, 13, 12, 7, 11, 4, 2, 8, 13, 7, 0, 9, 3, 4, 6, 10, 2, 8, 5, 14, 12, 11, 15, 1, 13, 6, 4, 9, 8, 15, 3, 0, 11, 1, 2, 12, 5, 10, 14, 7, 1, 10, 13, 0, 6, 9, 8, 7, 4, 15, 14, 3, 11, 5, 2, 12, 7, 13, 14, 3, 0, 6, 9, 10, 1, 2, 8, 5, 11, 12, 4, 15, 13, 8, 11, 5, 6, 15, 0, 3, 4, 7, 2, 12, 1, 10, 14, 9, 10, 6, 9, 0, 12, 11, 7, 13, 15, 1, 3, 14, 5, 2, 8, 4, 3, 15, 0, 6, 10, 1, 13, 8, 9, 4, 5, 11, 12, 7, 2, 14, 2, 12, 4, 1, 7, 10, 11, 6, 8, 5, 3, 15, 13, 0, 14, 9, 14, 11, 2, 12, 4, 7, 13, 1, 5, 0, 15, 10, 3, 9, 8, 6, 4, 2, 1, 11, 10, 13, 7, 8, 15, 9, 12, 5, 6, 3, 0, 14, 11, 8, 12, 7, 1, 14, 2, 13, 6, 15, 0, 9, 10, 4, 5, 3, 12, 1, 10, 15, 9, 2, 6, 8, 0, 13, 3, 4, 14, 7, 5, 11, 10, 15, 4, 2, 7, 12, 9, 5, 6, 1, 13, 14, 0, 11, 3, 8, 9, 14, 15, 5, 2, 8, 12, 3, 7, 0, 4, 10, 1, 13, 11, 6, 4, 3, 2, 12, 9, 5, 15, 10, 11, 14, 1, 7, 6, 0, 8, 13, 4, 11, 2, 14, 15, 0, 8, 13, 3, 12, 9, 7, 5, 10, 6, 1, 13, 0, 11, 7, 4, 9, 1, 10, 14, 3, 5, 12, 2, 15, 8, 6, 1, 4, 11, 13, 12, 3, 7, 14, 10, 15, 6, 8, 0, 5, 9, 2, 6, 11, 13, 8, 1, 4, 10, 7, 9, 5, 0, 15, 14, 2, 3, 12, 13, 2, 8, 4, 6, 15, 11, 1, 10, 9, 3, 14, 5, 0, 12, 7, 1, 15, 13, 8, 10, 3, 7, 4, 12, 5, 6, 11, 0, 14, 9, 2, 7, 11, 4, 1, 9, 12, 14, 2, 0, 6, 10, 13, 15, 3, 5, 8, 2, 1, 14, 7, 4, 10, 8, 13, 15, 12, 9, 0, 3, 5, 6, 11>>           \* 8 boxes x 64 entries, box b row r column c at (b-1)*64 + r*16 + c + 1

Permute(bits, table) == [i \in 1..Len(table) |-> bits[table[i]]]
FP == [i \in 1..64 |-> CHOOSE j \in 1..64 : IP[j] = i]            \* the inverse of IP
Xor(a, b) == [i \in 1..Len(a) |-> (a[i] + b[i]) % 2]
RotL(s, n) == [i \in 1..Len(s) |-> s[((i - 1 + n) % Len(s)) + 1]]

\* bytes <-> bits (MSB first)
ByteBits(b) == <<(b \div 128) % 2, (b \div 64) % 2, (b \div 32) % 2, (b \div 16) % 2, (b \div 8) % 2, (b \div 4) % 2, (b \div 2) % 2, b % 2>>
RECURSIVE BytesToBits(_)
BytesToBits(bs) == IF bs = <<>> THEN <<>> ELSE ByteBits(bs[1]) \o BytesToBits(Tail(bs))
BitsToBytes(bits) == [k \in 1..(Len(bits) \div 8) |->
   bits[8*k-7] * 128 + bits[8*k-6] * 64 + bits[8*k-5] * 32 + bits[8*k-4] * 16 + bits[8*k-3] * 8 + bits[8*k-2] * 4 + bits[8*k-1] * 2 + bits[8*k]]

\* ---- key schedule: 16 round keys of 48 bits (the parity bits 8,16,..,64 are dropped by PC-1)
RECURSIVE CDs(_, _, _)
CDs(c, d, r) == IF r > 16 THEN <<>>
                ELSE LET c1 == TLCEval(RotL(c, Shifts[r]))  d1 == TLCEval(RotL(d, Shifts[r])) IN <<Permute(c1 \o d1, PC2)>> \o CDs(c1, d1, r + 1)
KeySchedule(key64) == LET cd == Permute(key64, PC1) IN CDs(SubSeq(cd, 1, 28), SubSeq(cd, 29, 56), 1)

\* ---- round function with the crypt(3) salt: salt bit i (i = 0 least significant) swaps bits
\* i+1 and i+25 of the expanded block
SaltBit(salt, i) == (salt \div (2 ^ i)) % 2
Salted(e, salt) == [j \in 1..48 |->
   IF j <= 24 THEN (IF SaltBit(salt, j - 1) = 1 THEN e[j + 24] ELSE e[j])
   ELSE (IF SaltBit(salt, j - 25) = 1 THEN e[j - 24] ELSE e[j])]
SOut(b, six) ==            \* S-box b on 6 bits: row = first and last bit, column = middle four
  LET row == six[1] * 2 + six[6]
      col == six[2] * 8 + six[3] * 4 + six[4] * 2 + six[5]
      v == SBox[(b - 1) * 64 + row * 16 + col + 1] IN
  <<(v \div 8) % 2, (v \div 4) % 2, (v \div 2) % 2, v % 2>>
F(r, k, salt) ==
  LET x == TLCEval(Xor(Salted(TLCEval(Permute(r, E)), salt), k))
      s == SOut(1, SubSeq(x, 1, 6)) \o SOut(2, SubSeq(x, 7, 12)) \o SOut(3, SubSeq(x, 13, 18)) \o SOut(4, SubSeq(x, 19, 24))
           \o SOut(5, SubSeq(x, 25, 30)) \o SOut(6, SubSeq(x, 31, 36)) \o SOut(7, SubSeq(x, 37, 42)) \o SOut(8, SubSeq(x, 43, 48)) IN
  Permute(s, P)

\* iteration is written with SequencesExt!FoldLeft (evaluated iteratively on concrete values: TLC passes
\* the arguments of RECURSIVE operators lazily, which makes a 400-round chain intractable)
Seq1To(n) == [i \in 1..n |-> i]
Rounds(lr, ks, salt, dec) ==
  FoldLeft(LAMBDA acc, i : <<acc[2], Xor(acc[1], F(acc[2], IF dec THEN ks[17 - i] ELSE ks[i], salt))>>, lr, Seq1To(16))
\* one 16-round pass followed by undoing the last swap; `count` passes are chained
Iter(lr, ks, salt, count, dec) ==
  FoldLeft(LAMBDA acc, n : LET x == Rounds(acc, ks, salt, dec) IN <<x[2], x[1]>>, lr, Seq1To(count))
\* the salted, iterated block function of the DES-based hashes (alg-des.c des_crypt_block)
CryptBlock(key64, salt, count, in64, dec) ==
  LET ks == TLCEval(KeySchedule(key64))
      ip == TLCEval(Permute(in64, IP))
      x  == Iter(<<SubSeq(ip, 1, 32), SubSeq(ip, 33, 64)>>, ks, salt, IF count = 0 THEN 1 ELSE count, dec) IN
  Permute(x[1] \o x[2], FP)
\* plain DES
Encrypt(key64, block64) == CryptBlock(key64, 0, 1, block64, FALSE)
Decrypt(key64, block64) == CryptBlock(key64, 0, 1, block64, TRUE)
CryptBlockBytes(key8, salt, count, in8, dec) == BitsToBytes(CryptBlock(BytesToBits(key8), salt, count, BytesToBits(in8), dec))
=============================================================================
