------------------------------- MODULE Yescrypt -------------------------------
(***************************************************************************)
(* yescrypt / scrypt / gost-yescrypt: what the setting string decodes to   *)
(* (flags, N, r, p, t, g, NROM, salt bytes) and the schedule of smix1 /    *)
(* smix2 invocations the yescrypt definition prescribes for those          *)
(* parameters (Appendix D of DESIGN.md): chunks per lane, the t-dependent  *)
(* loop counts Nloop_all / Nloop_rw, rounding to even, the second          *)
(* (read-only) phase, and the prehash pass with N >> 6 for large RW        *)
(* instances.  The block mixing itself (Salsa20/8, pwxform) is not         *)
(* specified.  Values stay below 2^31 on the corpus.                       *)
(***************************************************************************)
EXTENDS Naturals, Integers, Sequences, FiniteSets, TLC, SequencesExt
S == INSTANCE Settings

RW == 2
KNOWN_RW == 182         \* YESCRYPT_RW | ROUNDS_6 | GATHER_4 | SIMPLE_2 | SBOX_12K  (flavor "j")
Seq1To(n) == [i \in 1..n |-> i]

\* ---- decode64_uint32 with values (Settings!Dec64Var gives one- and two-character numerals exactly)
Num(s, i, min) == S!Dec64Var(s, i, min)
\* fixed-width little-endian numeral of n characters ($7$ r and p)
Fixed(s, i, n) == FoldLeft(LAMBDA acc, k : acc + S!B64Val(s[i + k - 1]) * (64 ^ (k - 1)), 0, Seq1To(n))

\* [ok, flags, N, r, p, t, g, nrom, saltstart] ; ok = FALSE when the encoding is rejected or uses
\* numerals this model does not evaluate (three or more characters)
Bad == [ok |-> FALSE, flags |-> 0, N |-> 0, r |-> 0, p |-> 0, t |-> 0, g |-> 0, nrom |-> 0, saltstart |-> 0]
DecodeY(s, tagLen) ==
  LET fl == Num(s, tagLen + 1, 0) IN
  IF ~fl.ok \/ fl.big \/ fl.val > RW + 255 THEN Bad ELSE
  LET flags == IF fl.val < RW THEN fl.val ELSE RW + (fl.val - RW) * 4
      nl == Num(s, fl.next, 1) IN
  IF ~nl.ok \/ nl.big \/ nl.val > 30 THEN Bad ELSE
  LET r == Num(s, nl.next, 1) IN
  IF ~r.ok \/ r.big THEN Bad ELSE
  IF S!At(s, r.next) = 36 THEN
     [ok |-> TRUE, flags |-> flags, N |-> 2 ^ nl.val, r |-> r.val, p |-> 1, t |-> 0, g |-> 0, nrom |-> 0, saltstart |-> r.next + 1]
  ELSE
  LET have == Num(s, r.next, 1) IN
  IF ~have.ok \/ have.big THEN Bad ELSE
  LET hv == have.val
      pp == IF (hv % 2) = 1 THEN Num(s, have.next, 2) ELSE [ok |-> TRUE, val |-> 1, next |-> have.next, big |-> FALSE]
      tt == IF ((hv \div 2) % 2) = 1 THEN Num(s, pp.next, 1) ELSE [ok |-> TRUE, val |-> 0, next |-> pp.next, big |-> FALSE]
      gg == IF ((hv \div 4) % 2) = 1 THEN Num(s, tt.next, 1) ELSE [ok |-> TRUE, val |-> 0, next |-> tt.next, big |-> FALSE]
      nr == IF ((hv \div 8) % 2) = 1 THEN Num(s, gg.next, 1) ELSE [ok |-> TRUE, val |-> 0, next |-> gg.next, big |-> FALSE] IN
  IF ~pp.ok \/ pp.big \/ ~tt.ok \/ tt.big \/ ~gg.ok \/ gg.big \/ ~nr.ok \/ nr.big \/ S!At(s, nr.next) # 36 THEN Bad
  ELSE [ok |-> TRUE, flags |-> flags, N |-> 2 ^ nl.val, r |-> r.val, p |-> pp.val, t |-> tt.val, g |-> gg.val,
        nrom |-> IF ((hv \div 8) % 2) = 1 THEN nr.val ELSE 0, saltstart |-> nr.next + 1]
Decode7(s) ==
  IF Len(s) < 14 \/ \E i \in 4..14 : ~S!IsB64(s[i]) THEN Bad
  ELSE LET nl == S!B64Val(s[4]) IN
       IF nl < 1 \/ nl > 30 THEN Bad
       ELSE [ok |-> TRUE, flags |-> 0, N |-> 2 ^ nl, r |-> Fixed(s, 5, 5), p |-> Fixed(s, 10, 5), t |-> 0, g |-> 0, nrom |-> 0, saltstart |-> 15]

\* ---- what yescrypt_kdf accepts (alg-yescrypt-opt.c: "Sanity-check parameters", all before any allocation) ----
\* d = a decoded parameter record.  crypt never passes a shared ROM, so NROM must be 0; hash upgrades (g) are not supported.
KdfAccepts(d) ==
  LET mode == d.flags % 4 IN
  /\ d.g = 0 /\ d.nrom = 0
  /\ CASE mode = 0 -> d.flags = 0 /\ d.t = 0                   \* classic scrypt: nothing non-standard
       [] mode = 1 -> d.flags = 1                               \* YESCRYPT_WORM alone
       [] mode = 2 -> d.flags = KNOWN_RW                        \* the one supported pwxform flavour
       [] OTHER -> FALSE
  /\ d.r >= 1 /\ d.p >= 1 /\ d.N > 3
  /\ d.r < (1073741824 + d.p - 1) \div d.p                     \* r * p < 2^30, without overflowing TLC's integers
  /\ (mode = 2 => d.N \div d.p > 3)

\* ---- the smix schedule ---------------------------------------------------
P2Floor(n) == CHOOSE x \in {2 ^ k : k \in 0..29} : x <= n /\ 2 * x > n
Even(n) == ((n + 1) \div 2) * 2                  \* round up to even
\* one smix() invocation: [name, r, N, Nloop, flags] records, in order
Smix(flags, N, r, p, t) ==
  LET rw == (flags \div 2) % 2 = 1
      nchunk0 == N \div p
      all0 == IF rw THEN (IF t = 0 THEN (nchunk0 + 2) \div 3 ELSE IF t = 1 THEN (2 * nchunk0 + 2) \div 3 ELSE nchunk0 * (t - 1))
              ELSE (IF t = 0 THEN nchunk0 ELSE IF t = 1 THEN nchunk0 + (nchunk0 + 1) \div 2 ELSE nchunk0 * t)
      rw0 == IF rw THEN all0 \div p ELSE 0
      nchunk == (nchunk0 \div 2) * 2
      nall == Even(all0)  nrw == Even(rw0)
      lane(i) == LET np == IF i < p THEN nchunk ELSE N - (p - 1) * nchunk IN
                 (IF rw THEN <<[n |-> "smix1", r |-> 1, N |-> 96, loop |-> 0, flags |-> 0]>> ELSE <<>>)
                 \o <<[n |-> "smix1", r |-> r, N |-> np, loop |-> 0, flags |-> flags],
                      [n |-> "smix2", r |-> r, N |-> P2Floor(np), loop |-> nrw, flags |-> flags]>>
      phase1 == FoldLeft(LAMBDA acc, i : acc \o lane(i), <<>>, Seq1To(p))
      phase2 == IF nall > nrw THEN [i \in 1..p |-> [n |-> "smix2", r |-> r, N |-> N, loop |-> nall - nrw, flags |-> (IF rw THEN flags - RW ELSE flags)]]
                ELSE <<>> IN
  phase1 \o phase2
\* yescrypt_kdf_body: one smix over all lanes (RW, or a single lane), else one single-lane smix per lane
Body(flags, N, r, p, t) ==
  IF p = 1 \/ (flags \div 2) % 2 = 1 THEN Smix(flags, N, r, p, t)
  ELSE FoldLeft(LAMBDA acc, i : acc \o Smix(flags, N, r, 1, t), <<>>, Seq1To(p))
\* yescrypt_kdf: large RW instances are preceded by a prehash pass with N >> 6 and t = 0
PREHASH == 268435456
Schedule(d) ==
  IF (d.flags \div 2) % 2 = 1 /\ d.p >= 1 /\ d.N \div d.p >= 256 /\ (d.N \div d.p) * d.r >= 131072
    THEN Body(d.flags + PREHASH, d.N \div 64, d.r, d.p, 0) \o Body(d.flags, d.N, d.r, d.p, d.t)
    ELSE Body(d.flags, d.N, d.r, d.p, d.t)

\* ---- observed facts: 8-byte little-endian words of an event buffer (values < 2^31) -----------
Word(a, k) == a[8 * k - 7] + 256 * a[8 * k - 6] + 65536 * a[8 * k - 5] + 16777216 * (a[8 * k - 4] % 128)
Observed(aux) ==
  LET sm == SelectSeq(aux, LAMBDA x : x.n \in {"smix1", "smix2"}) IN
  [i \in 1..Len(sm) |-> IF sm[i].n = "smix1"
                          THEN [n |-> "smix1", r |-> Word(sm[i].a, 1), N |-> Word(sm[i].a, 2), loop |-> 0, flags |-> Word(sm[i].a, 3)]
                          ELSE [n |-> "smix2", r |-> Word(sm[i].a, 1), N |-> Word(sm[i].a, 2), loop |-> Word(sm[i].a, 3), flags |-> Word(sm[i].a, 4)]]
Kdf(aux) == LET k == SelectSeq(aux, LAMBDA x : x.n = "ykdf") IN
            IF Len(k) = 0 THEN Bad
            ELSE [ok |-> TRUE, flags |-> Word(k[1].a, 1), N |-> Word(k[1].a, 2), r |-> Word(k[1].a, 3), p |-> Word(k[1].a, 4),
                  t |-> Word(k[1].a, 5), g |-> Word(k[1].a, 6), nrom |-> Word(k[1].a, 7), salt |-> k[1].b]
=============================================================================
