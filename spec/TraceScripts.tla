---------------------------- MODULE TraceScripts ----------------------------
(* Trace specification for C02 (published algorithm): a successful crypt call must return the
   value the method's script computes from (passphrase, setting). *)
EXTENDS Naturals, Integers, Sequences, FiniteSets, TLC, Json, IOUtils
S  == INSTANCE Settings
SC == INSTANCE Scripts
BF == INSTANCE Bcrypt
Y == INSTANCE Yescrypt
GSL == INSTANCE Gensalt
T == ndJsonDeserialize(IOEnv.XCV_TRACE)
VARIABLES l, viol, div, cnt
V(p, n) == [l |-> l, p |-> p, n |-> n]
Enabled == S!AllMethods
IsHashEv(e) == e \in {"crypt_rn", "crypt_r", "xcrypt_r", "crypt", "fcrypt", "xcrypt", "crypt_ra"}
Success(ev) == ev.ret = "out" /\ ev.outk = "str" /\ Len(ev.out) > 0 /\ ev.out[1] # 42
Scripted == {"descrypt", "bigcrypt", "bsdicrypt", "md5crypt", "nt", "sha256crypt", "sha512crypt", "sha1crypt", "sunmd5"}
Judge(ev) ==
  LET o == S!Outcome(Enabled, ev.s, ev.pl) IN
  IF o.k = "ok" /\ o.m \in Scripted /\ Success(ev)
    THEN LET want == SC!Script(o.m, ev.cfs, ev.pc, ev.s, S!Parse(Enabled, o.m, ev.s, ev.pl)) IN
         IF want = <<>> THEN {V("C02", "ScriptMissingCompress")}      \* the algorithm needs a compression the code never did
         ELSE IF want = ev.out THEN {} ELSE {V("C02", "Script")}
  \* gost-yescrypt relative to the library's own yescrypt result for the same parameters (yprev, verified)
  ELSE IF o.k \in {"ok", "either"} /\ o.m = "gost_yescrypt" /\ Success(ev) /\ ev.yprev > 0 /\ ev.yprev < l
          /\ T[ev.yprev].ph = ev.ph /\ T[ev.yprev].s = S!S_y \o S!Drop(ev.s, 4) /\ Success(T[ev.yprev])
    THEN LET pr == S!Parse(Enabled, o.m, ev.s, ev.pl)
             want == SC!GostYescrypt(ev.cfs, ev.pc, pr.canon, T[ev.yprev].out) IN
         IF want = <<>> THEN {V("C02", "ScriptMissingCompress")}
         ELSE IF want = ev.out THEN {} ELSE {V("C02", "GostScript")}
  ELSE {}
\* bcrypt: every key expansion observed in the call (the user's key and the self-test's) equals BFSetKey
FlagsOf(n) == IF n = "bfkey1" THEN 1 ELSE IF n = "bfkey2" THEN 2 ELSE 4
JudgeAux(ev) ==
  IF "aux" \notin DOMAIN ev THEN {}
  ELSE UNION {IF ev.aux[i].n \notin {"bfkey1", "bfkey2", "bfkey4"} THEN {} ELSE
              LET x == ev.aux[i]
                  key == SubSeq(x.a, 1, Len(x.a) - 1)
                  want == BF!BFSetKey(key, FlagsOf(x.n)) IN
              IF BF!Words(x.b) = want.expanded /\ BF!Words(x.c) = want.initial THEN {} ELSE {V("C02", "BfSetKey")}
              : i \in 1..Len(ev.aux)}
\* the key expansion must be the one of the phrase the caller passed and of the subtype the setting names
JudgeBfUse(ev) ==
  LET o == S!Outcome(Enabled, ev.s, ev.pl) IN
  IF "aux" \in DOMAIN ev /\ o.k = "ok" /\ o.m \in {"bcrypt", "bcrypt_a", "bcrypt_x", "bcrypt_y"} /\ Success(ev)
    THEN LET want == IF o.m = "bcrypt_x" THEN "bfkey1" ELSE IF o.m = "bcrypt_a" THEN "bfkey2" ELSE "bfkey4" IN
         IF Len(ev.aux) >= 1 /\ ev.aux[1].n = want /\ ev.aux[1].a = ev.pc \o <<0>> THEN {} ELSE {V("C02", "BfKeyOfPhrase")}
  ELSE {}
\* yescrypt family: the parameters the KDF ran with are the ones the setting encodes, the salt is the decoded
\* salt field, and the smix invocations are the schedule the definition prescribes for them
JudgeY(ev) ==
  LET o == S!Outcome(Enabled, ev.s, ev.pl) IN
  IF "aux" \notin DOMAIN ev \/ o.m \notin {"yescrypt", "gost_yescrypt", "scrypt"} \/ ~Success(ev) THEN {}
  ELSE LET d == IF o.m = "scrypt" THEN Y!Decode7(ev.s) ELSE Y!DecodeY(ev.s, IF o.m = "yescrypt" THEN 3 ELSE 4)
           k == Y!Kdf(ev.aux) IN
       IF ~d.ok THEN {}                                   \* (numerals of three or more characters: not evaluated)
       ELSE IF ~k.ok THEN {V("DIV", "YescryptNoKdf")}
       ELSE (IF <<k.flags, k.N, k.r, k.p, k.t, k.g>> = <<d.flags, d.N, d.r, d.p, d.t, d.g>> THEN {} ELSE {V("C02", "YescryptParams")})
            \* (the recorder keeps the first 160 hook events of a call: with more lanes than that, the recorded
            \* invocations must be the leading part of the schedule)
            \cup (LET ob == Y!Observed(ev.aux)  sc == Y!Schedule(d) IN
                  IF (IF "auxdrop" \in DOMAIN ev /\ ev.auxdrop > 0
                      THEN Len(ob) <= Len(sc) /\ ob = SubSeq(sc, 1, Len(ob)) ELSE ob = sc)
                  \* (how the work is split into smix invocations is the implementation's business as long as the hash is
                  \* the released one: a disagreement with Yescrypt!Schedule is a model divergence, not a violation)
                  THEN {} ELSE {V("DIV", "YescryptSchedule")})
            \cup (LET lastd == S!LastIndexOf(ev.s, 36, d.saltstart)
                       saltstr == SubSeq(ev.s, d.saltstart, IF lastd = 0 THEN Len(ev.s) ELSE lastd - 1) IN
                  IF o.m = "scrypt" THEN (IF k.salt = saltstr THEN {} ELSE {V("C02", "YescryptSalt")})
                  ELSE (IF GSL!Enc64LE(k.salt) = saltstr THEN {} ELSE {V("C02", "YescryptSalt")}))
Init == l = 1 /\ viol = {} /\ div = {} /\ cnt = 0
Next == /\ l <= Len(T) /\ l' = l + 1
        /\ IF IsHashEv(T[l].e) /\ T[l].pnull = 0 /\ T[l].snull = 0
             THEN LET all == Judge(T[l]) \cup JudgeAux(T[l]) \cup JudgeBfUse(T[l]) \cup JudgeY(T[l]) IN
                  /\ viol' = viol \cup {x \in all : x.p # "DIV"}
                  /\ div' = div \cup {[l |-> x.l, d |-> x.n] : x \in {y \in all : y.p = "DIV"}}
                  /\ cnt' = cnt + 1
             ELSE UNCHANGED <<viol, div, cnt>>
Spec == Init /\ [][Next]_<<l, viol, div, cnt>>
Finish == l <= Len(T) \/ JsonSerialize(IOEnv.XCV_VERDICT, [consumed |-> l - 1, lines |-> Len(T), viol |-> viol, div |-> div, cnt |-> [calls |-> cnt]])
=============================================================================
