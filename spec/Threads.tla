-------------------------------- MODULE Threads --------------------------------
(***************************************************************************)
(* C08: N threads call API functions concurrently on distinct caller       *)
(* objects.  A call is split into the steps in which it writes and then    *)
(* reads back the locations of its footprint; TLC explores ALL             *)
(* interleavings.  The only code-dependent input is the footprint of each  *)
(* function on SHARED locations (writable static storage of the library):  *)
(* it is MEASURED on the fresh build (static inventory, write-set of every *)
(* sequential call, and execution with static storage write-protected)     *)
(* and handed to this module as FP.  With footprints that touch only the   *)
(* caller's own object, NoRace and AsIfAlone hold; with crypt() or         *)
(* crypt_gensalt() in the mix TLC must find the documented race            *)
(* (non-vacuity witness configuration).                                    *)
(***************************************************************************)
EXTENDS Naturals, Sequences, FiniteSets, TLC, Json, IOUtils

CONSTANTS Thr,        \* thread identities
          Calls,      \* API functions the threads may call in this configuration
          NCalls      \* calls per thread
\* fn -> shared locations it writes, measured on the code ({"crypt_r": [], "crypt": ["nr_crypt_ctx.0"], ...})
Measured == JsonDeserialize(IOEnv.XCV_FOOTPRINTS)
Shared(f) == {<<"static", Measured[f][i]>> : i \in 1..Len(Measured[f])}
\* every call also uses the caller's own object / buffer, private to the thread
FP(t, f) == Shared(f) \cup {<<"own", ToString(t)>>}

VARIABLES pc, cur, left, mem, ok
vars == <<pc, cur, left, mem, ok>>
Locs == UNION {FP(t, f) : t \in Thr, f \in Calls}
Init == /\ pc = [t \in Thr |-> "idle"] /\ cur = [t \in Thr |-> "none"] /\ left = [t \in Thr |-> NCalls]
        /\ mem = [l \in Locs |-> "nobody"] /\ ok = [t \in Thr |-> TRUE]
Begin(t, f) == /\ pc[t] = "idle" /\ left[t] > 0
               /\ pc' = [pc EXCEPT ![t] = "write"] /\ cur' = [cur EXCEPT ![t] = f] /\ left' = [left EXCEPT ![t] = @ - 1]
               /\ UNCHANGED <<mem, ok>>
Write(t) == /\ pc[t] = "write"
            /\ mem' = [l \in Locs |-> IF l \in FP(t, cur[t]) THEN t ELSE mem[l]]
            /\ pc' = [pc EXCEPT ![t] = "read"] /\ UNCHANGED <<cur, left, ok>>
\* the call's result is what it would be alone iff nobody else wrote its locations in between
Read(t) == /\ pc[t] = "read"
           /\ ok' = [ok EXCEPT ![t] = @ /\ \A l \in FP(t, cur[t]) : mem[l] = t]
           /\ pc' = [pc EXCEPT ![t] = "idle"] /\ UNCHANGED <<cur, left, mem>>
Next == \E t \in Thr : (\E f \in Calls : Begin(t, f)) \/ Write(t) \/ Read(t)
Spec == Init /\ [][Next]_vars

InCall(t) == pc[t] \in {"write", "read"}
\* no two threads are inside calls whose footprints share a location
NoRace == \A t1, t2 \in Thr : (t1 # t2 /\ InCall(t1) /\ InCall(t2)) => FP(t1, cur[t1]) \cap FP(t2, cur[t2]) = {}
AsIfAlone == \A t \in Thr : ok[t]
=============================================================================
