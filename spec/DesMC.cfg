SPECIFICATION Spec
INVARIANT DecInvertsEnc ParityIgnored Complement SaltZero SaltedInverse Sample
CHECK_DEADLOCK FALSE
