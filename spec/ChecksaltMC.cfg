SPECIFICATION Spec
INVARIANT Exactly Classes CanHash TagOnly ClassInvariance PreferredOK
CHECK_DEADLOCK FALSE
