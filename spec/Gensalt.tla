------------------------------- MODULE Gensalt -------------------------------
(***************************************************************************)
(* crypt_gensalt_rn as a total function                                    *)
(*   (prefix, count, random bytes, nrbytes, output_size) -> outcome        *)
(* for every method, written from crypt(5), crypt_gensalt(3) and the code  *)
(* (crypt.c:270-330 and the gensalt_*_rn functions), plus the DOCUMENTED   *)
(* cost function DocCost and salt-size requirements used by C11/C12.       *)
(*                                                                         *)
(* count is an unsigned long (64 bit) and is carried as a sequence of      *)
(* decimal digit codes; TLC integers are 32-bit.                           *)
(***************************************************************************)
EXTENDS Naturals, Integers, Sequences, FiniteSets, TLC
S == INSTANCE Settings

EINVAL == 22
ERANGE == 34
GENSALT_OUTPUT_SIZE == 192

\* ---- decimal strings ---------------------------------------------------
D(n) == S!NatToDec(n)
DecLess(a, b) == S!DecLess(a, b)
DecLeq(a, b)  == ~S!DecLess(b, a)
IsZero(c) == S!StripZeros(c) = <<48>>
DecMin(a, b) == IF DecLess(a, b) THEN a ELSE b
DecMax(a, b) == IF DecLess(a, b) THEN b ELSE a
Clamp(c, lo, hi) == DecMin(DecMax(c, lo), hi)
\* value of a decimal string known to be < 2^31
Val(c) == S!DecVal(S!StripZeros(c))
Small(c, bound) == DecLeq(c, D(bound))          \* c <= bound (bound < 2^31)
\* a + b for decimal a and a small natural b
RECURSIVE AddSmall(_, _)
AddSmall(a, b) ==
  IF b = 0 THEN a
  ELSE IF a = <<>> THEN D(b)
  ELSE LET d == (a[Len(a)] - 48) + (b % 10)
           carry == d \div 10 IN
       AddSmall(SubSeq(a, 1, Len(a) - 1), (b \div 10) + carry) \o <<48 + (d % 10)>>
\* a * k for a small k
RECURSIVE MulSmallC(_, _, _)
MulSmallC(a, k, carry) ==
  IF a = <<>> THEN (IF carry = 0 THEN <<>> ELSE D(carry))
  ELSE LET d == (a[Len(a)] - 48) * k + carry IN
       MulSmallC(SubSeq(a, 1, Len(a) - 1), k, d \div 10) \o <<48 + (d % 10)>>
MulSmall(a, k) == S!StripZeros(MulSmallC(a, k, 0))

C_0 == <<48>>
C_u32max == <<52,50,57,52,57,54,55,50,57,53>>            \* 4294967295
C_sunmax == <<52,50,57,52,57,48,49,55,53,57>>            \* 4294967295 - 65536 = 4294901759
C_u24max == <<49,54,55,55,55,50,49,53>>                  \* 16777215

\* ---- byte -> character packings ----------------------------------------
B64Chr(v) == S!B64Chr(v)
\* 24 bits, least significant 6 bits first (ascii64 / itoa64 order "./0-9A-Za-z")
Pack4LE(v) == <<B64Chr(v % 64), B64Chr((v \div 64) % 64), B64Chr((v \div 4096) % 64), B64Chr((v \div 262144) % 64)>>
V3LE(b0, b1, b2) == b0 + 256 * b1 + 65536 * b2
\* yescrypt/scrypt encode64: groups of 3 bytes little-endian, LSB-first characters, partial group = ceil(bits/6) chars
RECURSIVE Enc64LE(_)
Enc64LE(b) ==
  IF b = <<>> THEN <<>>
  ELSE IF Len(b) = 1 THEN <<B64Chr(b[1] % 64), B64Chr(b[1] \div 64)>>
  ELSE IF Len(b) = 2 THEN LET v == b[1] + 256 * b[2] IN <<B64Chr(v % 64), B64Chr((v \div 64) % 64), B64Chr(v \div 4096)>>
  ELSE Pack4LE(V3LE(b[1], b[2], b[3])) \o Enc64LE(SubSeq(b, 4, Len(b)))
Base64Len(n) == (n * 8 + 5) \div 6
\* bcrypt's big-endian base-64 ("./A-Za-z0-9")
RECURSIVE BFEnc(_)
BFEnc(b) ==
  IF b = <<>> THEN <<>>
  ELSE IF Len(b) = 1 THEN <<S!BFChr(b[1] \div 4), S!BFChr((b[1] % 4) * 16)>>
  ELSE IF Len(b) = 2 THEN <<S!BFChr(b[1] \div 4), S!BFChr((b[1] % 4) * 16 + b[2] \div 16), S!BFChr((b[2] % 16) * 4)>>
  ELSE <<S!BFChr(b[1] \div 4), S!BFChr((b[1] % 4) * 16 + b[2] \div 16),
         S!BFChr((b[2] % 16) * 4 + b[3] \div 64), S!BFChr(b[3] % 64)>> \o BFEnc(SubSeq(b, 4, Len(b)))
\* fixed-width little-endian numeral of n characters (scrypt's r and p, bsdicrypt's count)
RECURSIVE FixLE(_, _)
FixLE(v, n) == IF n = 0 THEN <<>> ELSE <<B64Chr(v % 64)>> \o FixLE(v \div 64, n - 1)
Pow2(n) == 2 ^ n

\* ---- outcomes ----------------------------------------------------------
GFail(e) == [ok |-> FALSE, err |-> e, kind |-> "fail", str |-> <<>>, lo |-> <<>>, hi |-> <<>>, tail |-> <<>>]
GOk(s)   == [ok |-> TRUE, err |-> 0, kind |-> "exact", str |-> s, lo |-> <<>>, hi |-> <<>>, tail |-> <<>>]
\* sha1crypt: "$sha1$" R "$" salt "$" with lo < R <= hi   (R = count - random % (count/4))
GSha1(hi, tail, exact) == [ok |-> TRUE, err |-> 0, kind |-> IF exact THEN "sha1" ELSE "sha1-head", str |-> S!S_sha1d, lo |-> <<>>, hi |-> hi, tail |-> tail]

Take(s, n) == S!Take(s, n)

\* ---- per-method generators (count c as digits, random bytes rb, nr = nrbytes given, size) ----
GenDes(c, rb, nr, size) ==
  IF size < 3 THEN GFail(ERANGE)
  ELSE IF nr < 2 \/ ~IsZero(c) THEN GFail(EINVAL)
  ELSE GOk(<<B64Chr(rb[1] % 64), B64Chr(rb[2] % 64)>>)

GenBig(E, c, rb, nr, size) ==
  IF "descrypt" \in E THEN GenDes(c, rb, nr, size)
  ELSE IF size < 15 THEN GFail(ERANGE)
  ELSE LET g == GenDes(c, rb, nr, size) IN
       IF g.ok THEN GOk(g.str \o <<46,46,46,46,46,46,46,46,46,46,46,46>>) ELSE g

GenBsdi(c, rb, nr, size) ==
  IF size < 10 THEN GFail(ERANGE)
  ELSE IF nr < 3 THEN GFail(EINVAL)
  ELSE LET c1 == IF IsZero(c) THEN D(725) ELSE DecMin(c, C_u24max)
           n  == Val(c1)
           odd == IF (n % 2) = 0 THEN n + 1 ELSE n IN
       GOk(<<95>> \o FixLE(odd, 4) \o Pack4LE(V3LE(rb[1], rb[2], rb[3])))

\* util-gensalt-sha.c (with the F2/F3 repairs: exact fit succeeds, 3 bytes give 4 salt characters)
RECURSIVE ShaSalt(_, _, _, _, _, _)
ShaSalt(rb, nr, used, written, size, maxsalt) ==
  IF written + 5 <= size /\ used + 3 <= nr /\ ((used * 4) \div 3) < maxsalt
  THEN Pack4LE(V3LE(rb[used + 1], rb[used + 2], rb[used + 3])) \o ShaSalt(rb, nr, used + 3, written + 4, size, maxsalt)
  ELSE <<>>
GenSha(tag, maxsalt, def, lo, hi, c, rb, nr, size) ==
  IF nr < 3 THEN GFail(EINVAL)
  ELSE LET c1 == Clamp(IF IsZero(c) THEN def ELSE c, lo, hi)
           isdef == S!StripZeros(c1) = def
           head == IF isdef THEN <<36, tag, 36>> ELSE <<36, tag, 36>> \o S!S_rounds \o S!StripZeros(c1) \o <<36>>
           need == Len(head) + 5 IN
       IF size < need THEN GFail(ERANGE)
       ELSE GOk(head \o ShaSalt(rb, nr, 0, Len(head), size, maxsalt))

GenMd5(c, rb, nr, size) ==
  IF ~IsZero(c) THEN GFail(EINVAL)
  ELSE GenSha(49, 8, D(1000), D(1000), D(1000), D(1000), rb, nr, size)

GenSunmd5(c, rb, nr, size) ==
  IF size < 33 THEN GFail(ERANGE)
  ELSE IF nr < 8 THEN GFail(EINVAL)
  ELSE LET c1 == Clamp(c, D(32768), C_sunmax)
           c2 == AddSmall(S!StripZeros(c1), rb[1] * 256 + rb[2]) IN
       GOk(S!S_md5 \o <<44>> \o S!S_rounds \o c2 \o <<36>>
           \o Pack4LE(V3LE(rb[3], rb[4], rb[5])) \o Pack4LE(V3LE(rb[6], rb[7], rb[8])) \o <<36>>)

\* sha1crypt: salt groups from rb[5..], big-endian 3-byte groups printed LSB-first
RECURSIVE Sha1Salt(_, _, _, _)
Sha1Salt(rb, nr, r, room) ==           \* r = 0-based offset of the next byte; room = characters left before olim
  IF r + 3 < nr /\ 4 < room
  THEN Pack4LE(rb[r + 1] * 65536 + rb[r + 2] * 256 + rb[r + 3]) \o Sha1Salt(rb, nr, r + 3, room - 4)
  ELSE <<>>
GenSha1(c, rb, nr, size) ==
  IF nr < 16 THEN GFail(EINVAL)
  ELSE IF size < ((nr - 4) * 4) \div 3 + 9 + 10 THEN GFail(ERANGE)
  ELSE LET c0 == IF IsZero(c) THEN D(262144) ELSE c
           c1 == Clamp(c0, D(4), C_u32max)
           \* rounds in ( c1 - c1/4 , c1 ] : 4*rounds > 3*c1 (for c1 >= 4) and rounds <= c1
           \* the salt may use 64 characters unless the buffer is shorter: olim = min(n + 64, size - 2)
           \* (n = length of "$sha1$R$", at most 6 + 10 + 1); modelled for sizes where the cap is 64
           exact == size >= 6 + 10 + 1 + 64 + 2
           tailsalt == Sha1Salt(rb, nr, 4, IF exact THEN 64 ELSE 0) IN
       GSha1(c1, tailsalt \o <<36>>, exact)

GenNt(c, size) ==
  IF size < 4 THEN GFail(ERANGE) ELSE IF ~IsZero(c) THEN GFail(EINVAL) ELSE GOk(S!S_3)

GenBcrypt(sub, c, rb, nr, size) ==
  LET c1 == IF IsZero(c) THEN D(5) ELSE c IN
  IF nr < 16 \/ DecLess(c1, D(4)) \/ DecLess(D(31), c1) \/ sub = 120 THEN GFail(EINVAL)
  ELSE IF size < 30 THEN GFail(ERANGE)
  ELSE LET n == Val(c1) IN
       GOk(<<36, 50, sub, 36, 48 + (n \div 10), 48 + (n % 10), 36>> \o BFEnc(Take(rb, 16)))

\* yescrypt (crypt-yescrypt.c:118-190): flavor 'j', N_log2 and r numerals, '$', salt
GenYescrypt(c, rb, nr0, size) ==
  LET nr == S!Min(nr0, 64) IN
  IF size < 3 + 48 + 1 + Base64Len(nr) + 1 \/ GENSALT_OUTPUT_SIZE < 3 + 48 + 1 + Base64Len(nr) + 1 THEN GFail(ERANGE)
  ELSE IF DecLess(D(11), c) \/ nr < 16 THEN GFail(EINVAL)
  ELSE LET n == IF IsZero(c) THEN 5 ELSE Val(c)
           nlog2 == IF n < 3 THEN n + 9 ELSE n + 7
           r == IF n < 3 THEN 8 ELSE 32 IN
       GOk(S!S_y \o <<106, B64Chr(nlog2 - 1), B64Chr(r - 1), 36>> \o Enc64LE(Take(rb, nr)))

GenGost(c, rb, nr0, size) ==
  LET nr == S!Min(nr0, 64) IN
  IF size < 4 + 48 + Base64Len(nr) + 1 \/ GENSALT_OUTPUT_SIZE < 4 + 48 + Base64Len(nr) + 1 THEN GFail(ERANGE)
  ELSE LET y == GenYescrypt(c, rb, nr, size - 1) IN
       IF ~y.ok THEN y ELSE GOk(S!S_gy \o S!Drop(y.str, 3))

GenScrypt(c, rb, nr0, size) ==
  LET nr == S!Min(nr0, 64) IN
  IF size < 3 + 1 + 10 + Base64Len(nr) + 1 \/ GENSALT_OUTPUT_SIZE < 3 + 1 + 10 + Base64Len(nr) + 1 THEN GFail(ERANGE)
  ELSE IF (~IsZero(c) /\ DecLess(c, D(6))) \/ DecLess(D(11), c) \/ nr < 16 THEN GFail(EINVAL)
  ELSE LET n == IF IsZero(c) THEN 7 ELSE Val(c) IN
       GOk(S!S_7 \o <<B64Chr(n + 7)>> \o FixLE(32, 5) \o FixLE(1, 5) \o Enc64LE(Take(rb, nr)))

\* number of random bytes crypt_gensalt_rn draws itself when rbytes == NULL (hashes.conf)
AutoBytes == [m \in S!Methods |->
  CASE m \in {"yescrypt","gost_yescrypt","scrypt","bcrypt","bcrypt_y","bcrypt_a","bcrypt_x"} -> 16
    [] m \in {"sha512crypt","sha256crypt"} -> 15 [] m = "sha1crypt" -> 20 [] m = "sunmd5" -> 8
    [] m = "md5crypt" -> 9 [] m = "nt" -> 1 [] m = "bsdicrypt" -> 3 [] OTHER -> 2]

GenMethod(E, m, c, rb, nr, size) ==
  CASE m = "descrypt" -> GenDes(c, rb, nr, size)
    [] m = "bigcrypt" -> GenBig(E, c, rb, nr, size)
    [] m = "bsdicrypt" -> GenBsdi(c, rb, nr, size)
    [] m = "md5crypt" -> GenMd5(c, rb, nr, size)
    [] m = "sha256crypt" -> GenSha(53, 16, D(5000), D(1000), D(999999999), c, rb, nr, size)
    [] m = "sha512crypt" -> GenSha(54, 16, D(5000), D(1000), D(999999999), c, rb, nr, size)
    [] m = "sunmd5" -> GenSunmd5(c, rb, nr, size)
    [] m = "sha1crypt" -> GenSha1(c, rb, nr, size)
    [] m = "nt" -> GenNt(c, size)
    [] m = "bcrypt" -> GenBcrypt(98, c, rb, nr, size)
    [] m = "bcrypt_a" -> GenBcrypt(97, c, rb, nr, size)
    [] m = "bcrypt_y" -> GenBcrypt(121, c, rb, nr, size)
    [] m = "bcrypt_x" -> GenBcrypt(120, c, rb, nr, size)
    [] m = "yescrypt" -> GenYescrypt(c, rb, nr, size)
    [] m = "gost_yescrypt" -> GenGost(c, rb, nr, size)
    [] m = "scrypt" -> GenScrypt(c, rb, nr, size)

\* the method a prefix argument selects (NULL = the preferred method)
MethodOf(E, prefixnull, prefix) ==
  IF prefixnull THEN S!DefaultMethod(E) ELSE S!Dispatch(E, prefix)

\* crypt_gensalt_rn (crypt.c:270-330).  rb = the bytes the method sees: the caller's, or, when
\* rbnull, the entropy the OS returned (ent).  nrbytes is the caller's int.
Gensalt(E, prefixnull, prefix, c, rbnull, rb, nrbytes, ent, size) ==
  IF size < 3 THEN GFail(ERANGE)
  ELSE LET m == MethodOf(E, prefixnull, prefix) IN
       IF m = "none" THEN GFail(EINVAL)
       ELSE IF ~rbnull /\ nrbytes < 0 THEN GFail(EINVAL)
       ELSE IF rbnull THEN GenMethod(E, m, c, ent, AutoBytes[m], size)
       ELSE GenMethod(E, m, c, rb, nrbytes, size)

\* ---- the DOCUMENTED cost function (crypt(5), crypt_gensalt(3)) ---------
\* kinds: "reject" (EINVAL), "fixed" (no cost field), "exact" (digits), "window" (lo < cost <= hi), "log" (n)
DocCost(m, c) ==
  CASE m \in {"md5crypt", "nt", "descrypt", "bigcrypt"} ->
         IF IsZero(c) THEN [k |-> "fixed"] ELSE [k |-> "reject"]
    [] m \in {"sha256crypt", "sha512crypt"} ->
         [k |-> "exact", v |-> S!StripZeros(Clamp(IF IsZero(c) THEN D(5000) ELSE c, D(1000), D(999999999)))]
    [] m = "bsdicrypt" ->
         LET n == Val(IF IsZero(c) THEN D(725) ELSE DecMin(c, C_u24max)) IN
         [k |-> "exact", v |-> D(IF (n % 2) = 0 THEN n + 1 ELSE n)]
    [] m = "sha1crypt" ->
         LET c1 == Clamp(IF IsZero(c) THEN D(262144) ELSE c, D(4), C_u32max) IN [k |-> "window", hi |-> c1]
    [] m = "sunmd5" ->
         LET c1 == S!StripZeros(Clamp(c, D(32768), C_sunmax)) IN [k |-> "sunwindow", lo |-> c1, hi |-> AddSmall(c1, 65535)]
    [] m \in {"bcrypt", "bcrypt_a", "bcrypt_y"} ->
         LET c1 == IF IsZero(c) THEN D(5) ELSE c IN
         IF DecLess(c1, D(4)) \/ DecLess(D(31), c1) THEN [k |-> "reject"] ELSE [k |-> "log", n |-> Val(c1)]
    [] m = "bcrypt_x" -> [k |-> "reject"]
    [] m \in {"yescrypt", "gost_yescrypt"} ->
         IF DecLess(D(11), c) THEN [k |-> "reject"] ELSE [k |-> "log", n |-> IF IsZero(c) THEN 5 ELSE Val(c)]
    [] m = "scrypt" ->
         IF DecLess(D(11), c) \/ (~IsZero(c) /\ DecLess(c, D(6))) THEN [k |-> "reject"]
         ELSE [k |-> "log", n |-> IF IsZero(c) THEN 7 ELSE Val(c)]

\* the cost crypt will apply, decoded from a generated setting g by an independent reader
\* (digits for linear costs, n for logarithmic ones; <<>> when there is none)
DigitsAfter(g, i) == SubSeq(g, i, S!DigitRunEnd(g, i) - 1)
CostIn(m, g) ==
  CASE m \in {"sha256crypt", "sha512crypt"} ->
         IF S!StartsWith(S!Drop(g, 3), S!S_rounds) THEN DigitsAfter(g, 11) ELSE D(5000)
    [] m = "bsdicrypt" -> D(S!B64Val(g[2]) + 64 * S!B64Val(g[3]) + 4096 * S!B64Val(g[4]) + 262144 * S!B64Val(g[5]))
    [] m = "sha1crypt" -> DigitsAfter(g, 7)
    [] m = "sunmd5" -> DigitsAfter(g, 13)               \* "$md5,rounds=" is 12 characters
    [] m \in {"bcrypt", "bcrypt_a", "bcrypt_y", "bcrypt_x"} -> D((g[5] - 48) * 10 + (g[6] - 48))
    [] m = "yescrypt" -> D(LET nl == S!B64Val(g[5]) + 1  r == S!B64Val(g[6]) + 1 IN
                           IF r = 8 THEN nl - 9 ELSE IF r = 32 THEN nl - 7 ELSE 999)
    [] m = "gost_yescrypt" -> D(LET nl == S!B64Val(g[6]) + 1  r == S!B64Val(g[7]) + 1 IN
                                IF r = 8 THEN nl - 9 ELSE IF r = 32 THEN nl - 7 ELSE 999)
    [] m = "scrypt" -> D(S!B64Val(g[4]) - 7)
    [] OTHER -> <<>>
\* C11: the generated cost is the documented function of count
CostAgrees(m, c, g) ==
  LET d == DocCost(m, c)  have == CostIn(m, g) IN
  CASE d.k = "fixed" -> TRUE
    [] d.k = "reject" -> FALSE
    [] d.k = "exact" -> S!StripZeros(have) = d.v
    [] d.k = "log" -> S!StripZeros(have) = D(d.n)
    [] d.k = "window" -> DecLeq(have, d.hi) /\ DecLess(MulSmall(d.hi, 3), MulSmall(have, 4)) /\ have # <<>>
    [] d.k = "sunwindow" -> DecLeq(d.lo, have) /\ DecLeq(have, d.hi)
\* C11: no accepted count is cheaper than the method's minimum
MinCostOK(m, g) ==
  LET have == CostIn(m, g) IN
  CASE m \in {"sha256crypt", "sha512crypt"} -> DecLeq(D(1000), have)
    [] m = "bsdicrypt" -> DecLeq(D(1), have) /\ (Val(have) % 2) = 1
    [] m = "sha1crypt" -> DecLeq(D(4), have)       \* clamped to 4, minus less than a quarter
    [] m = "sunmd5" -> DecLeq(D(32768), have)
    [] m \in {"bcrypt", "bcrypt_a", "bcrypt_y"} -> DecLeq(D(4), have)
    [] m \in {"yescrypt", "gost_yescrypt"} -> DecLeq(D(1), have) /\ DecLeq(have, D(11))
    [] m = "scrypt" -> DecLeq(D(6), have)
    [] OTHER -> TRUE

\* ---- salt of a generated setting, and the documented sizes (C12) --------
\* bits of salt: characters * 6 (DES: 2 chars = 12 bits), counted on the salt field of g
SaltField(m, g) ==
  CASE m \in {"descrypt", "bigcrypt"} -> Take(g, 2)
    [] m = "bsdicrypt" -> SubSeq(g, 6, 9)
    [] m \in {"bcrypt", "bcrypt_a", "bcrypt_y", "bcrypt_x"} -> SubSeq(g, 8, 29)
    [] m = "nt" -> <<>>
    [] m = "scrypt" -> S!Drop(g, 14)
    [] OTHER -> \* "$tag$[params$]salt[$]": the field after the last '$' that is followed by salt characters
         LET body == IF g[Len(g)] = 36 THEN SubSeq(g, 1, Len(g) - 1) ELSE g
             ld == S!LastIndexOf(body, 36, 1) IN S!Drop(body, ld)
\* minimum salt size crypt(5) documents (bits), and the standard size given >= 16 random bytes
MinSaltBits(m) == CASE m \in {"descrypt", "bigcrypt"} -> 12 [] m = "bsdicrypt" -> 24 [] m = "nt" -> 0
                    [] m \in {"bcrypt", "bcrypt_a", "bcrypt_y", "bcrypt_x"} -> 128
                    [] m \in {"yescrypt", "gost_yescrypt", "scrypt"} -> 128
                    [] m = "sunmd5" -> 48 [] m = "md5crypt" -> 24 [] m = "sha1crypt" -> 48
                    [] m \in {"sha256crypt", "sha512crypt"} -> 24
StdSaltBits(m) == CASE m \in {"descrypt", "bigcrypt"} -> 12 [] m = "bsdicrypt" -> 24 [] m = "nt" -> 0
                    [] m \in {"md5crypt", "sunmd5"} -> 48 [] m = "sha1crypt" -> 72
                    [] m \in {"sha256crypt", "sha512crypt"} -> 96 [] OTHER -> 128
SaltBits(m, g) == IF m \in {"bcrypt", "bcrypt_a", "bcrypt_y", "bcrypt_x"} THEN 128
                  ELSE IF m \in {"yescrypt", "gost_yescrypt", "scrypt"} THEN ((Len(SaltField(m, g)) * 6) \div 8) * 8
                  ELSE Len(SaltField(m, g)) * 6
=============================================================================
