SPECIFICATION Spec
INVARIANT Finish
CHECK_DEADLOCK FALSE
