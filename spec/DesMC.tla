-------------------------------- MODULE DesMC --------------------------------
(* Model-level laws of Des.tla on sampled keys and blocks: decryption inverts encryption, parity
   bits of the key are ignored, the complementation property, the FIPS sample vector, and the
   salted iterated function reduces to plain DES for salt 0 and count 1. *)
EXTENDS Des
Bits(n, seed) == [i \in 1..n |-> ((i * i * seed + i * 7 + seed) \div 3) % 2]
Keys == {Bits(64, s) : s \in {1, 2, 5, 11, 23}} \cup {[i \in 1..64 |-> IF i = k THEN 1 ELSE 0] : k \in {1, 8, 33, 64}}
Blocks == {Bits(64, s) : s \in {3, 4, 9}} \cup {[i \in 1..64 |-> 0], [i \in 1..64 |-> 1]}
VARIABLE c
Init == c \in {[k |-> k, b |-> b] : k \in Keys, b \in Blocks}
Next == UNCHANGED c
Spec == Init /\ [][Next]_c
Not(s) == [i \in 1..Len(s) |-> 1 - s[i]]
FlipParity(k) == [i \in 1..64 |-> IF (i % 8) = 0 THEN 1 - k[i] ELSE k[i]]
DecInvertsEnc == Decrypt(c.k, Encrypt(c.k, c.b)) = c.b /\ Encrypt(c.k, Decrypt(c.k, c.b)) = c.b
ParityIgnored == Encrypt(FlipParity(c.k), c.b) = Encrypt(c.k, c.b)
Complement == Encrypt(Not(c.k), Not(c.b)) = Not(Encrypt(c.k, c.b))
SaltZero == CryptBlock(c.k, 0, 1, c.b, FALSE) = Encrypt(c.k, c.b) /\ CryptBlock(c.k, 0, 0, c.b, FALSE) = Encrypt(c.k, c.b)
SaltedInverse == CryptBlock(c.k, 2731, 3, CryptBlock(c.k, 2731, 3, c.b, FALSE), TRUE) = c.b
\* FIPS 81 sample: key 0123456789abcdef, "Now is t" -> 3fa40e8a984d4815
Sample == CryptBlockBytes(<<1, 35, 69, 103, 137, 171, 205, 239>>, 0, 1, <<78, 111, 119, 32, 105, 115, 32, 116>>, FALSE)
            = <<63, 164, 14, 138, 152, 77, 72, 21>>
=============================================================================
