--------------------------------- MODULE Mac ---------------------------------
(***************************************************************************)
(* HMAC (RFC 2104) and PBKDF2 (RFC 8018) as constructions over an          *)
(* uninterpreted hash / PRF given as a finite set of facts [m, d]          *)
(* (message, digest) evaluated by the implementation's own primitive.      *)
(***************************************************************************)
EXTENDS Naturals, Integers, Sequences, FiniteSets, TLC, SequencesExt

\* byte xor by bit decomposition, tabulated once
RECURSIVE XorBits(_, _, _)
XorBits(a, b, k) == IF k = 0 THEN 0 ELSE 2 * XorBits(a \div 2, b \div 2, k - 1) + ((a + b) % 2)
XorTab == [a \in 0..255 |-> [b \in 0..255 |-> XorBits(a, b, 8)]]
XorC(s, c) == [i \in 1..Len(s) |-> XorTab[s[i]][c]]
XorSeq(s, t) == [i \in 1..Len(s) |-> XorTab[s[i]][t[i]]]
Zeros(n) == [i \in 1..n |-> 0]

Fact(facts, m) ==
  LET I == {i \in 1..Len(facts) : facts[i].m = m} IN
  IF I = {} THEN <<>> ELSE facts[CHOOSE i \in I : TRUE].d

\* HMAC with block size B: keys longer than a block are hashed first (a key of exactly B bytes is not)
Hmac(facts, B, key, msg) ==
  LET k0 == IF Len(key) > B THEN Fact(facts, key) ELSE key IN
  IF Len(key) > B /\ k0 = <<>> THEN <<>>
  ELSE LET kp == k0 \o Zeros(B - Len(k0))
           inner == Fact(facts, XorC(kp, 54) \o msg) IN
       IF inner = <<>> THEN <<>> ELSE Fact(facts, XorC(kp, 92) \o inner)

\* PBKDF2 with an hLen-byte PRF given by facts (PRF(P, m) = Fact(m)); INT(i) is 4 bytes big-endian
Seq1To(n) == [i \in 1..n |-> i]
\* U_1 given; returns U_1 xor ... xor U_c (or <<>> when a fact is missing)
Iterate(facts, u1, c) ==
  FoldLeft(LAMBDA acc, j : IF acc.u = <<>> THEN acc
                           ELSE LET un == Fact(facts, acc.u) IN
                                IF un = <<>> THEN [u |-> <<>>, x |-> <<>>] ELSE [u |-> un, x |-> XorSeq(acc.x, un)],
           [u |-> u1, x |-> u1], Seq1To(c - 1)).x
Int4(i) == <<(i \div 16777216) % 256, (i \div 65536) % 256, (i \div 256) % 256, i % 256>>
Block(facts, salt, c, i) ==
  LET u1 == Fact(facts, salt \o Int4(i)) IN IF u1 = <<>> THEN <<>> ELSE Iterate(facts, u1, c)
Pbkdf2Blocks(facts, salt, c, n) ==
  FoldLeft(LAMBDA acc, i : IF acc.bad THEN acc
                           ELSE LET b == Block(facts, salt, c, i) IN
                                IF b = <<>> THEN [bad |-> TRUE, out |-> <<>>] ELSE [bad |-> FALSE, out |-> acc.out \o b],
           [bad |-> FALSE, out |-> <<>>], Seq1To(n)).out
Pbkdf2(facts, hlen, salt, c, dklen) ==
  LET n == (dklen + hlen - 1) \div hlen
      all == Pbkdf2Blocks(facts, salt, c, n) IN
  IF all = <<>> THEN <<>> ELSE SubSeq(all, 1, dklen)
=============================================================================
