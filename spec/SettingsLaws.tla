---------------------------- MODULE SettingsLaws ----------------------------
(***************************************************************************)
(* Model-level laws of the setting language, checked by TLC on grammar-    *)
(* directed domains (DESIGN.md C01/C06/C18).  One TLC "state" per domain   *)
(* element: the variable ranges over the domain in Init, Next is stuttering.*)
(*   Idem        re-hashing with the produced canonical setting followed   *)
(*               by ANY digest text selects the same method and the same   *)
(*               canonical setting                                         *)
(*   OnlySetting the digest text does not influence the parse              *)
(*   ShapeLaw    canonical setting + separator + digest text has the       *)
(*               method's Shape, dispatches to the method, is not INVALID  *)
(*   TokenLaw    failure tokens are rejected as settings, shorter than 13  *)
(***************************************************************************)
EXTENDS Settings

E == AllMethods
\* small alphabets for salts and digests: boundary characters of the base-64 set
SaltChars == {46, 47, 48, 57, 65, 90, 97, 122}
Seqs(A, n) == [1..n -> A]
Salt(n, k) == [i \in 1..n |-> CHOOSE c \in SaltChars : \A d \in SaltChars : (c + 7 * (i + k)) % 8 = (d + 7 * (i + k)) % 8 => c <= d]
\* deterministic pseudo-varied salt of length n, variant k
SaltStr(n, k) == [i \in 1..n |-> LET L == <<46, 47, 48, 57, 65, 90, 97, 122>> IN L[((i * 3 + k) % 8) + 1]]
DigestStr(n, k) == [i \in 1..n |-> LET L == <<46, 47, 48, 57, 65, 90, 97, 122>> IN L[((i * 5 + k) % 8) + 1]]
HexStr(n, k) == [i \in 1..n |-> LET L == <<48, 49, 57, 97, 102>> IN L[((i * 3 + k) % 5) + 1]]

R1000 == <<49,48,48,48>>
Rounds(d) == S_rounds \o d \o <<36>>
Sha2Dom(pre) ==
  {pre \o SaltStr(n, k) \o t : n \in 0..20, k \in 0..1, t \in {<<>>, <<36>>}}
  \cup {pre \o Rounds(d) \o SaltStr(n, 1) \o t : d \in {R1000, <<53,48,48,48>>, S_999999999, <<49,50,51,52,53>>}, n \in {0, 1, 16, 17}, t \in {<<>>, <<36>>}}
Md5Dom == {S_1 \o SaltStr(n, k) \o t : n \in 0..12, k \in 0..1, t \in {<<>>, <<36>>}}
SunDom ==
  {S_md5 \o <<sep>> \o r \o SaltStr(n, 0) \o t :
     sep \in {36, 44}, r \in {<<>>, Rounds(<<49>>), Rounds(<<57,48,52>>)}, n \in {0, 1, 8, 16}, t \in {<<>>, <<36>>, <<36, 36>>, <<36, 120>>}}
Sha1Dom == {S_sha1d \o it \o <<36>> \o SaltStr(n, 0) \o t :
              it \in {<<49>>, <<49,48>>, <<48,49,48>>, <<43,49,48>>, <<>>, <<48>>}, n \in {1, 2, 8, 63, 64}, t \in {<<>>, <<36>>}}
BfSalt(k) == [i \in 1..22 |-> LET L == <<46, 47, 65, 90, 97, 122, 48, 57>> IN L[((i * 3 + k) % 8) + 1]]
BcryptDom == {<<36, 50, sub, 36>> \o c \o <<36>> \o BfSalt(k) \o tail :
                sub \in {97, 98, 120, 121}, c \in {<<48,52>>, <<48,53>>, <<49,48>>, <<51,49>>}, k \in 0..7, tail \in {<<>>, <<120, 121>>}}
\* canonical crypt-base64: the unused bits of a trailing partial group are zero
YSalt(n) == IF (n % 4) \in {2, 3} THEN SubSeq(SaltStr(n, 0), 1, n - 1) \o <<46>> ELSE SaltStr(n, 0)
YDom(tag) == {tag \o <<106, 55, 53, 36>> \o YSalt(n) \o t : n \in {0, 2, 3, 4, 22, 43, 86}, t \in {<<>>, <<36>>}}
BsdiDom == {<<95>> \o SaltStr(8, k) \o t : k \in 0..3, t \in {<<>>, <<120, 121, 122>>}}
DesDom == {SaltStr(2, k) \o t : k \in 0..3, t \in {<<>>, SaltStr(11, 1), SaltStr(12, 1), SaltStr(22, 2)}}
NtDom == {S_3, S_3 \o <<36>>, S_3 \o <<120>>}

DomOf(m) ==
  CASE m = "sha512crypt" -> Sha2Dom(S_6) [] m = "sha256crypt" -> Sha2Dom(S_5) [] m = "md5crypt" -> Md5Dom
    [] m = "sunmd5" -> SunDom [] m = "sha1crypt" -> Sha1Dom [] m = "nt" -> NtDom
    [] m \in {"bcrypt", "bcrypt_a", "bcrypt_x", "bcrypt_y"} -> {s \in BcryptDom : StartsWith(s, PrefixOf[m])}
    [] m = "yescrypt" -> YDom(S_y) [] m = "gost_yescrypt" -> YDom(S_gy)
    [] m = "scrypt" -> {}                      \* acceptance of $7$ parameters is left to the KDF (Either)
    [] m = "bsdicrypt" -> BsdiDom [] m \in {"bigcrypt", "descrypt"} -> DesDom

Cases == UNION {{[m |-> m, s |-> s, plen |-> pl] : s \in DomOf(m), pl \in (IF m = "bigcrypt" THEN {0, 8, 9, 17, 128, 200} ELSE {5})} : m \in Methods}

VARIABLE c
Init == c \in Cases
Next == UNCHANGED c
Spec == Init /\ [][Next]_c

DigestSamples(m, plen, slen) ==
  LET n == DigestLen(m, plen, slen) IN
  IF m = "nt" THEN {HexStr(n, 0), HexStr(n, 1)} ELSE {DigestStr(n, 0), DigestStr(n, 3)}
Sep(m) == IF m = "nt" THEN <<36>> ELSE SepOf(m)
Dispatched == Dispatch(E, c.s)
P0 == Parse(E, c.m, c.s, c.plen)

\* the domain is made of accepted settings that dispatch to their method
DomainSound == (c.m \notin {"descrypt"}) => (Dispatched = c.m /\ P0.k = "ok")
Idem ==
  (Dispatched = c.m /\ P0.k = "ok") =>
     \A d \in DigestSamples(c.m, c.plen, Len(c.s)) :
        LET h == P0.canon \o Sep(c.m) \o d
            hm == Effective(c.m, c.plen, Len(c.s)) IN
        /\ Dispatch(E, h) = c.m
        /\ Parse(E, c.m, h, c.plen).k = "ok"
        /\ Parse(E, c.m, h, c.plen).canon = P0.canon
OnlySetting ==
  (Dispatched = c.m /\ P0.k = "ok") =>
     \A d1, d2 \in DigestSamples(c.m, c.plen, Len(c.s)) :
        Parse(E, c.m, P0.canon \o Sep(c.m) \o d1, c.plen) = Parse(E, c.m, P0.canon \o Sep(c.m) \o d2, c.plen)
ShapeLaw ==
  (Dispatched = c.m /\ P0.k = "ok") =>
     \A d \in DigestSamples(c.m, c.plen, Len(c.s)) :
        LET h == P0.canon \o Sep(c.m) \o d
            hm == Effective(c.m, c.plen, Len(c.s)) IN
        /\ Shape(IF hm = "descrypt" THEN "descrypt" ELSE c.m, h)
        /\ Checksalt(E, h) # SALT_INVALID
        /\ ~BadChars(h)
TokenLaw ==
  \A t \in {T_star0, T_star1, <<42>>} :
     /\ Checksalt(E, t) = SALT_INVALID /\ Outcome(E, t, 5).k = "fail" /\ Len(t) < 13
     /\ \A s \in {c.s, T_star0, T_star1} : Token(s, 384) # s
=============================================================================
