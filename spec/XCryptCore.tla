----------------------------- MODULE XCryptCore -----------------------------
(***************************************************************************)
(* Variable-free core of the API model: abstract values, the pipeline of   *)
(* do_crypt and its wrappers as pure step functions, and the property      *)
(* predicates over call records.  EXTENDed by XCrypt (the transition       *)
(* system TLC explores) and by TraceXCrypt (which applies the very same    *)
(* predicates to calls recorded from the real library).                    *)
(***************************************************************************)
EXTENDS Naturals, Integers, Sequences, FiniteSets, TLC

SIZEOF == 32768
NullBlk == 0          \* Blk is a set of positive integers
EINVAL == 22
ERANGE == 34
ENOMEM == 12
NOERR  == 0

\* ---------------------------------------------------------------------------
\* Abstract values
\* out field:  "zero" | "junk" | <<"tok", t>> | <<"hash", key>>
\* scratch (reserved, initialized, internal): "clean" | "junk" | <<"deskey", k>>
Tok(t)   == <<"tok", t>>
Hash(k)  == <<"hash", k>>
IsTok(x) == x[1] = "tok"
IsHash(x) == x[1] = "hash"
Zero == <<"zero">>
Junk == <<"junk">>
Clean == <<"clean">>
FreshObj == [out |-> Zero, scr |-> Clean]
JunkObj  == [out |-> Junk, scr |-> Junk]

\* size classes for crypt_rn:  the token that fits (util-make-failure-token.c with MIN(size,384))
SizeClass == {"neg", "0", "1", "2", "small", "sizeof", "big"}
SizeOK(sz)  == sz \in {"sizeof", "big"}
\* token written into the output field for a setting and a size class
\* star1 = the setting starts with "*0"
TokenFor(star1, sz) ==
  CASE sz \in {"neg", "0"} -> <<"nothing">>
    [] sz = "1" -> Tok("")
    [] sz = "2" -> Tok("*")
    [] OTHER -> Tok(IF star1 THEN "*1" ELSE "*0")

\* ---------------------------------------------------------------------------
\* do_crypt (crypt.c:146-186) on an object whose output already holds the token.
\* oc = [k |-> "ok"|"fail", err, validated, key, star1]
\*   validated = the request got past argument validation (the method ran)
\* Returns the new object state and the errno the call leaves (NOERR = untouched).
DoCrypt(d, oc) ==
  IF ~oc.validated THEN [d |-> d, err |-> oc.err]
  ELSE [d |-> [out |-> IF oc.k = "ok" THEN Hash(oc.key) ELSE d.out,     \* a failing method leaves the token
               scr |-> Clean],                                            \* crypt.c:183-185, unconditional
        err |-> IF oc.k = "ok" THEN NOERR ELSE oc.err]

\* result pointer classes
RNull == "null"
ROut  == "out"

\* crypt_rn (crypt.c:189-202)
StepCryptRN(d, oc, sz) ==
  LET t  == TokenFor(oc.star1, sz)
      d0 == IF t = <<"nothing">> THEN d ELSE [d EXCEPT !.out = t] IN
  IF ~SizeOK(sz) THEN [d |-> d0, err |-> ERANGE, ret |-> RNull]
  ELSE LET x == DoCrypt(d0, oc) IN
       [d |-> x.d, err |-> x.err, ret |-> IF IsTok(x.d.out) THEN RNull ELSE ROut]

\* A deliberately WRONG variant, used only by the non-vacuity configuration XCryptMC_mutant.cfg: the
\* failure token is written after the size check instead of first.  The invariants must reject it.
StepCryptRN_late(d, oc, sz) ==
  IF ~SizeOK(sz) THEN [d |-> d, err |-> ERANGE, ret |-> RNull]
  ELSE StepCryptRN(d, oc, sz)

\* crypt_r (crypt.c:241-252), ENABLE_FAILURE_TOKENS=1: always returns the output field
StepCryptR(d, oc, failureTokens) ==
  LET d0 == [d EXCEPT !.out = TokenFor(oc.star1, "sizeof")]
      x  == DoCrypt(d0, oc) IN
  [d |-> x.d, err |-> x.err,
   ret |-> IF failureTokens THEN ROut ELSE IF IsTok(x.d.out) THEN RNull ELSE ROut]

\* ---------------------------------------------------------------------------
\* Property predicates over a *call record*
\*   c = [fn, oc, sz, pre, post, err0, err1, ret, grew, erasedFirst, allocFailed]
\* pre/post are the abstract states of the object the call works on, err0/err1 the value of errno
\* before and after.  The same predicates judge the model's own transitions (invariants below)
\* and, in TraceXCrypt, the transitions observed in the real library.
HashFns == {"crypt_rn", "crypt_r", "crypt", "crypt_ra"}
MustFail(c) == c.oc.k = "fail" \/ ~SizeOK(c.sz) \/ c.allocFailed
MustSucceed(c) == c.oc.k = "ok" /\ SizeOK(c.sz) /\ ~c.allocFailed
Validated(c) == c.oc.validated /\ SizeOK(c.sz) /\ ~c.allocFailed
NoRoom(c) == c.sz \in {"neg", "0"}

\* C05: a call that cannot produce a hash leaves a token, returns NULL (rn/ra) or the token
\* (crypt/crypt_r with failure tokens), and sets errno to a documented code
P_FailClosed(c) ==
  MustFail(c) =>
     /\ (NoRoom(c) \/ (c.allocFailed /\ c.fn = "crypt_ra") \/ IsTok(c.post.out))
     /\ c.err1 \in {EINVAL, ERANGE, ENOMEM}
     /\ (c.fn \in {"crypt_rn", "crypt_ra"} => c.ret = RNull)
     \* crypt/crypt_r return the token itself when built with failure tokens, NULL otherwise
     /\ (c.fn \in {"crypt_r", "crypt"} => c.ret = IF c.ft THEN ROut ELSE RNull)
\* C05: never the hash of an earlier call (unless told there is no room to write anything)
P_NoStale(c) == (MustFail(c) /\ ~NoRoom(c) /\ ~(c.allocFailed /\ c.fn = "crypt_ra")) => ~IsHash(c.post.out)
\* C05: the token is the documented one for the size and differs from the setting
P_Token(c) ==
  (MustFail(c) /\ ~(c.allocFailed /\ c.fn = "crypt_ra")) =>
     LET t == TokenFor(c.oc.star1, c.sz) IN IF t = <<"nothing">> THEN c.post.out = c.pre.out ELSE c.post.out = t
\* C05: too-small sizes are ERANGE and touch nothing but the token bytes
P_ShortSizes(c) ==
  (c.fn = "crypt_rn" /\ ~SizeOK(c.sz)) => c.ret = RNull /\ c.err1 = ERANGE /\ c.post.scr = c.pre.scr
\* C09: scratch wiped iff the request was validated, otherwise untouched
P_Wiped(c) ==
  /\ (Validated(c) => c.post.scr = Clean)
  /\ ((~Validated(c) /\ ~c.grew /\ ~c.allocFailed) => c.post.scr = c.pre.scr)
\* C07: a successful call yields the hash determined by the request alone and returns the output field
\* (errno after a successful call is unspecified: e.g. a failed huge-page attempt leaves ENOMEM behind)
P_Result(c) ==
  MustSucceed(c) => c.post.out = Hash(c.oc.key) /\ c.ret = ROut
\* C14: a block that had to grow was erased first, is zero-initialised after
P_Grow(c) == (c.fn = "crypt_ra" /\ c.grew) => c.erasedFirst
AllP == {"FailClosed", "NoStale", "Token", "ShortSizes", "Wiped", "Result", "Grow"}
Judge(c) == {n \in AllP :
   ~ CASE n = "FailClosed" -> P_FailClosed(c) [] n = "NoStale" -> P_NoStale(c) [] n = "Token" -> P_Token(c)
       [] n = "ShortSizes" -> P_ShortSizes(c) [] n = "Wiped" -> P_Wiped(c) [] n = "Result" -> P_Result(c)
       [] n = "Grow" -> P_Grow(c)}
Call(fn, oc, sz, pre, post, e0, e1, r, grew, ef, af, ft) ==
  [fn |-> fn, oc |-> oc, sz |-> sz, pre |-> pre, post |-> post, err0 |-> e0, err1 |-> e1, ret |-> r,
   grew |-> grew, erasedFirst |-> ef, allocFailed |-> af, ft |-> ft]

=============================================================================
